package c09

import (
	"context"
	"fmt"
	"runtime"
	"sort"
	"strings"
	"sync"
	"time"

	"github.com/ThreeDotsLabs/watermill"
	"github.com/ThreeDotsLabs/watermill/message"

	"verifharness/vlib"
)

// recorder collects the boundary events of one program, keyed by the UUID of the incoming message.
type recorder struct {
	mu     sync.Mutex
	trace  map[string][]string // enter/leave/handler events in the order they happened
	strace map[string]string   // subscriber-decorator trace carried by the incoming message when the handler saw it
	wraps  int                 // middleware constructor calls
	ho     *hoCtl              // handover class: what a middleware constructor does while handlers stop (nil otherwise)
}

func newRecorder() *recorder {
	return &recorder{trace: map[string][]string{}, strace: map[string]string{}}
}

func (r *recorder) add(uuid, ev string) {
	r.mu.Lock()
	r.trace[uuid] = append(r.trace[uuid], ev)
	r.mu.Unlock()
}

func (r *recorder) get(uuid string) ([]string, string) {
	r.mu.Lock()
	defer r.mu.Unlock()
	return append([]string(nil), r.trace[uuid]...), r.strace[uuid]
}

func (r *recorder) middleware(id int) message.HandlerMiddleware {
	return func(next message.HandlerFunc) message.HandlerFunc {
		r.mu.Lock()
		r.wraps++
		r.mu.Unlock()
		if r.ho != nil {
			r.ho.construct(id)
		}
		return func(m *message.Message) ([]*message.Message, error) {
			r.add(m.UUID, fmt.Sprintf("e%d", id))
			out, err := next(m)
			r.add(m.UUID, fmt.Sprintf("l%d", id))
			return out, err
		}
	}
}

func (r *recorder) handler(h, out int) message.HandlerFunc {
	return func(m *message.Message) ([]*message.Message, error) {
		r.mu.Lock()
		r.trace[m.UUID] = append(r.trace[m.UUID], fmt.Sprintf("H%d", h))
		r.strace[m.UUID] = m.Metadata.Get(sKey)
		r.mu.Unlock()
		var prod []*message.Message
		for i := 0; i < out; i++ {
			prod = append(prod, message.NewMessage(fmt.Sprintf("%s/o%d", m.UUID, i), []byte("o")))
		}
		return prod, nil
	}
}

const (
	pKey = "c09-ptrace"
	sKey = "c09-strace"
)

func appendMark(key string, id int) func(*message.Message) {
	return func(m *message.Message) {
		m.Metadata.Set(key, m.Metadata.Get(key)+fmt.Sprintf("%d,", id))
	}
}

// own decorators (used next to the library's MessageTransform decorators)

type pubDec struct {
	inner message.Publisher
	f     func(*message.Message)
}

func (d *pubDec) Publish(topic string, msgs ...*message.Message) error {
	for _, m := range msgs {
		d.f(m)
	}
	return d.inner.Publish(topic, msgs...)
}
func (d *pubDec) Close() error { return d.inner.Close() }

type subDec struct {
	inner message.Subscriber
	f     func(*message.Message)
}

func (d *subDec) Subscribe(ctx context.Context, topic string) (<-chan *message.Message, error) {
	in, err := d.inner.Subscribe(ctx, topic)
	if err != nil {
		return nil, err
	}
	out := make(chan *message.Message)
	go func() {
		defer close(out)
		for m := range in {
			d.f(m)
			out <- m
		}
	}()
	return out, nil
}
func (d *subDec) Close() error { return d.inner.Close() }

func pubDecorator(id int, lib bool) message.PublisherDecorator {
	if lib {
		return message.MessageTransformPublisherDecorator(appendMark(pKey, id))
	}
	return func(p message.Publisher) (message.Publisher, error) {
		return &pubDec{inner: p, f: appendMark(pKey, id)}, nil
	}
}

func subDecorator(id int, lib bool) message.SubscriberDecorator {
	if lib {
		return message.MessageTransformSubscriberDecorator(appendMark(sKey, id))
	}
	return func(s message.Subscriber) (message.Subscriber, error) {
		return &subDec{inner: s, f: appendMark(sKey, id)}, nil
	}
}

// ---------------------------------------------------------------------------------------------
// Fault injection (retry classes)

const injectedMsg = "c09 injected transient fault"

// faultState counts the invocations of every decorator constructor and of every handler subscriber's Subscribe
// and decides which of them fail.
type faultState struct {
	mu     sync.Mutex
	faults []fault
	calls  map[string]int
	fired  int
	log    []string
}

func newFaultState(f []fault) *faultState {
	return &faultState{faults: f, calls: map[string]int{}}
}

func (fs *faultState) hit(kind string, id int) error {
	fs.mu.Lock()
	defer fs.mu.Unlock()
	key := fmt.Sprintf("%s%d", kind, id)
	fs.calls[key]++
	n := fs.calls[key]
	for _, f := range fs.faults {
		if f.Kind == kind && f.ID == id && n >= f.Nth && n < f.Nth+f.Times {
			fs.fired++
			fs.log = append(fs.log, fmt.Sprintf("%s failed on its invocation %d", key, n))
			return fmt.Errorf("%s (%s, invocation %d)", injectedMsg, key, n)
		}
	}
	return nil
}

func (fs *faultState) summary() (int, string) {
	fs.mu.Lock()
	defer fs.mu.Unlock()
	return fs.fired, strings.Join(fs.log, "; ")
}

func (fs *faultState) pubDecorator(id int, inner message.PublisherDecorator) message.PublisherDecorator {
	return func(p message.Publisher) (message.Publisher, error) {
		if err := fs.hit("pdec", id); err != nil {
			return nil, err
		}
		return inner(p)
	}
}

func (fs *faultState) subDecorator(id int, inner message.SubscriberDecorator) message.SubscriberDecorator {
	return func(s message.Subscriber) (message.Subscriber, error) {
		if err := fs.hit("sdec", id); err != nil {
			return nil, err
		}
		return inner(s)
	}
}

// faultSub is the subscriber handed to AddHandler in the retry classes: Subscribe fails when the plan says so
// (nothing is subscribed then), otherwise it is the scripted subscriber.
type faultSub struct {
	inner *vlib.Sub
	fs    *faultState
	h     int
}

func (f *faultSub) Subscribe(ctx context.Context, topic string) (<-chan *message.Message, error) {
	if err := f.fs.hit("subscribe", f.h); err != nil {
		return nil, err
	}
	return f.inner.Subscribe(ctx, topic)
}
func (f *faultSub) Close() error   { return f.inner.Close() }
func (f *faultSub) String() string { return fmt.Sprintf("faultsub%d:%s", f.h, f.inner.Name) }

// progress tells the watching goroutine where the program runner is (for Stuck diagnoses).
type progress struct {
	mu    sync.Mutex
	prog  string
	phase string
	inMsg bool
}

func (p *progress) set(prog, phase string, inMsg bool) {
	p.mu.Lock()
	p.prog, p.phase, p.inMsg = prog, phase, inMsg
	p.mu.Unlock()
}

func (p *progress) get() (string, string, bool) {
	p.mu.Lock()
	defer p.mu.Unlock()
	return p.prog, p.phase, p.inMsg
}

// observation of one message sent to one handler
type observation struct {
	H       int      `json:"h"`
	Round   int      `json:"round"`
	WantMW  []string `json:"want_mw"`
	GotMW   []string `json:"got_mw"`
	WantSub string   `json:"want_sub"`
	GotSub  string   `json:"got_sub"`
	WantPub string   `json:"want_pub,omitempty"`
	GotPub  []string `json:"got_pub,omitempty"`
}

type verdict struct {
	clause string
	reason string
}

type progStats struct {
	handlers, events                         int
	orderObs, mixObs, foreignObs, pObs, sObs int
	late, second, wraps                      int
	aliasCalls, poisoned                     int // registration calls with re-used argument slices / overwritten after the call
	fired, failedCalls, runFailed            int // injected faults that fired; Run/RunHandlers calls that returned one; of these Run itself
	runRefused                               int // second Run calls after a failed Run that the router refused
	afterRetry, dead                         int // judged handlers that a failed call had left unstarted; handlers started by a Run that failed (not judged)
	// classes rejected / reuse
	dupRejected, dupOnPending  int // duplicate-name calls that panicked with DuplicateHandlerNameError; of these on a not yet started handler that had middlewares of its own
	earlyRunH, earlyStop       int // RunHandlers before Run that returned an error; Stop on a not started handler that panicked
	rejectedObs                int // judged handlers with own middlewares that a rejected call had targeted before their start
	reuseRounds                int // names registered again after their handler was stopped
	reuseEarly, reuseLate      int // ... with AddHandler+AddMiddleware done before / after the old handler's Stopped() was closed
	reuseObs, reuseJudged      int // judged re-registered handlers (Obs: with own middlewares and a predecessor that had own middlewares)
	logParks, pollFails, polls int // logger calls of router goroutines held back; failed AddHandler attempts of the retrying goroutine; Router.Handlers() polls
	bystanders                 int // judged handlers that were registered but not started while a handler with a related name stopped
	// class handover
	hoRounds, hoStops, hoSubClose  int // handover steps; handlers stopped by them; of these by closing their subscriber
	hoConcurrent, hoParked         int // steps whose stops were issued by a second goroutine during RunHandlers / after the starting handlers sat in a constructor
	hoOpenAtReturn                 int // stopped handlers whose Stopped() was still open when RunHandlers returned
	hoArrivals                     int // constructor calls that parked until the stopped handlers were gone
	hoCtorBefore, hoCtorAfter      int // constructor calls of starting handlers made while a stopped handler's Stopped() was still open / after
	hoJudged, hoShiftObs, hoNoPark int // judged handlers started by a handover step; of these with the stopped handler's entries before their own; parked steps in which a starting handler never reached its constructor
}

func (a *progStats) add(b progStats) {
	a.handlers += b.handlers
	a.events += b.events
	a.orderObs += b.orderObs
	a.mixObs += b.mixObs
	a.foreignObs += b.foreignObs
	a.pObs += b.pObs
	a.sObs += b.sObs
	a.late += b.late
	a.second += b.second
	a.wraps += b.wraps
	a.aliasCalls += b.aliasCalls
	a.poisoned += b.poisoned
	a.fired += b.fired
	a.failedCalls += b.failedCalls
	a.runFailed += b.runFailed
	a.runRefused += b.runRefused
	a.afterRetry += b.afterRetry
	a.dead += b.dead
	a.dupRejected += b.dupRejected
	a.dupOnPending += b.dupOnPending
	a.earlyRunH += b.earlyRunH
	a.earlyStop += b.earlyStop
	a.rejectedObs += b.rejectedObs
	a.reuseRounds += b.reuseRounds
	a.reuseEarly += b.reuseEarly
	a.reuseLate += b.reuseLate
	a.reuseObs += b.reuseObs
	a.reuseJudged += b.reuseJudged
	a.logParks += b.logParks
	a.pollFails += b.pollFails
	a.polls += b.polls
	a.bystanders += b.bystanders
	a.hoRounds += b.hoRounds
	a.hoStops += b.hoStops
	a.hoSubClose += b.hoSubClose
	a.hoConcurrent += b.hoConcurrent
	a.hoParked += b.hoParked
	a.hoOpenAtReturn += b.hoOpenAtReturn
	a.hoArrivals += b.hoArrivals
	a.hoCtorBefore += b.hoCtorBefore
	a.hoCtorAfter += b.hoCtorAfter
	a.hoJudged += b.hoJudged
	a.hoShiftObs += b.hoShiftObs
	a.hoNoPark += b.hoNoPark
}

// tryAdd calls AddHandler / AddNoPublisherHandler and recovers a panic: (handle, nil) when the handler was added,
// (nil, panic value) when the call panicked.
func tryAdd(r *message.Router, noPub bool, name, topicIn string, sub message.Subscriber, topicOut string, pub message.Publisher, hf message.HandlerFunc) (h *message.Handler, pv any) {
	defer func() {
		if x := recover(); x != nil {
			h, pv = nil, x
		}
	}()
	if noPub {
		return r.AddNoPublisherHandler(name, topicIn, sub, func(m *message.Message) error {
			_, err := hf(m)
			return err
		}), nil
	}
	return r.AddHandler(name, topicIn, sub, topicOut, pub, hf), nil
}

// isDupErr: the documented panic value of AddHandler for a taken name.
func isDupErr(pv any, name string) bool {
	d, ok := pv.(message.DuplicateHandlerNameError)
	return ok && d.HandlerName == name
}

// runProgram executes p against a fresh Router and judges every message. It returns the observations,
// the first violation (nil if none) and an inconclusive note ("" if none).
func runProgram(p *program, uid string, pg *progress) (obs []observation, st progStats, viol *verdict, inconcl string) {
	desc := p.String()
	ex := model(p)
	rec := newRecorder()
	fail := func(clause, format string, a ...any) {
		if viol == nil {
			viol = &verdict{clause, fmt.Sprintf(format, a...) + " | program: " + desc}
		}
	}

	var logger watermill.LoggerAdapter = watermill.NopLogger{}
	lc := &logCtl{}
	if p.HasReuse {
		logger = harnessLogger{c: lc}
	}
	if p.HasHandover {
		rec.ho = &hoCtl{}
	}
	r, err := message.NewRouter(message.RouterConfig{CloseTimeout: time.Hour}, logger)
	if err != nil {
		return nil, st, nil, "NewRouter: " + err.Error()
	}
	nH := len(p.Handlers)
	subs := make([]*vlib.Sub, nH)
	pubs := make([]*vlib.Pub, nH)
	for h := 0; h < nH; h++ {
		if p.SharedSub && h > 0 {
			subs[h] = subs[0]
		} else {
			subs[h] = &vlib.Sub{Name: fmt.Sprintf("%s.s%d", uid, h)}
		}
		if p.SharedPub && h > 0 {
			pubs[h] = pubs[0]
		} else {
			pubs[h] = &vlib.Pub{Name: fmt.Sprintf("%s.p%d", uid, h)}
		}
	}
	topicIn := func(h int) string { return fmt.Sprintf("%s.in%d", uid, h) }
	topicOut := func(h int) string { return fmt.Sprintf("%s.out%d", uid, h) }
	handles := make([]*message.Handler, nH)
	delivered := make([]bool, nH)
	ctx := context.Background()
	var runDone chan error

	// retry classes: fault plan, the subscribers that carry it, bookkeeping of what failed calls left behind
	var fs *faultState
	maxAttempts := 1
	if p.HasFaults {
		fs = newFaultState(p.Faults)
		for _, f := range p.Faults {
			maxAttempts += f.Times
		}
	}
	ownCount := make([]int, nH)       // handler-level middlewares registered so far
	rejectedHit := make([]bool, nH)   // a rejected call targeted this handler before it was started
	bystander := make([]bool, nH)     // registered, not started, while another handler stopped
	leak := false                     // the router is in a state in which Close would wait for a handler that never starts: leave it alone
	dead := make([]bool, nH)          // started by a Run call that then failed: Run cancels their context, never judged
	pendingAtFail := make([]bool, nH) // added but not started when a failed call returned
	faultNote := func() string {
		if fs == nil {
			return ""
		}
		_, l := fs.summary()
		return " | injected: " + l
	}

	// alias class: the caller-owned argument slices (one per kind of call), and one value per middleware id
	mwBuf := make([]message.HandlerMiddleware, 0, 64)
	pdBuf := make([]message.PublisherDecorator, 0, 16)
	sdBuf := make([]message.SubscriberDecorator, 0, 16)
	mwVals := map[int]message.HandlerMiddleware{}
	mwVal := func(id int) message.HandlerMiddleware {
		if v, ok := mwVals[id]; ok {
			return v
		}
		v := rec.middleware(id)
		mwVals[id] = v
		return v
	}
	poisonSeq := 0
	nextPoison := func() int { poisonSeq++; return poisonBase + poisonSeq }

	// one message to handler h, judged against the model
	deliver := func(h, round int) bool {
		e := ex[h]
		uuid := fmt.Sprintf("%s-h%d-r%d", uid, h, round)
		pg.set(desc, fmt.Sprintf("message %s to handler h%d", uuid, h), true)
		sp := subs[h].SubFor(topicIn(h))
		if sp == nil {
			inconcl = fmt.Sprintf("no subscription for handler h%d after it was started | program: %s", h, desc)
			return false
		}
		m := message.NewMessage(uuid, []byte("x"))
		m.SetContext(sp.Ctx)
		if !sp.Send(m) {
			inconcl = fmt.Sprintf("subscription of handler h%d ended before the message was taken | program: %s", h, desc)
			return false
		}
		select {
		case <-m.Acked():
		case <-m.Nacked():
			inconcl = fmt.Sprintf("message to handler h%d was nacked | program: %s", h, desc)
		}
		pg.set(desc, "judging", false)
		got, gotS := rec.get(uuid)
		o := observation{H: h, Round: round, WantMW: mwTrace(e.MW, h), GotMW: got, WantSub: decTrace(e.SDec), GotSub: gotS}
		if !p.Handlers[h].NoPub && p.Handlers[h].Out > 0 {
			o.WantPub = decTrace(e.PDec)
			want := map[string]bool{}
			for i := 0; i < p.Handlers[h].Out; i++ {
				want[fmt.Sprintf("%s/o%d", uuid, i)] = true
			}
			seen := 0
			for _, c := range pubs[h].Calls() {
				for _, s := range c.Snaps {
					if want[s.UUID] {
						seen++
						o.GotPub = append(o.GotPub, s.Metadata[pKey])
						if c.Topic != topicOut(h) {
							o.GotPub[len(o.GotPub)-1] += "@" + c.Topic
						}
					}
				}
			}
			if seen != p.Handlers[h].Out && inconcl == "" {
				inconcl = fmt.Sprintf("handler h%d: %d of %d produced messages reached the publisher | program: %s", h, seen, p.Handlers[h].Out, desc)
			}
		}
		obs = append(obs, o)
		st.events += len(got) + len(e.SDec) + len(o.GotPub)*len(e.PDec)
		prefix := ""
		switch {
		case e.Handover:
			prefix = "handover-"
		case e.Reused:
			prefix = "reuse-"
		case rejectedHit[h]:
			prefix = "rejected-"
		}
		judge(p, h, e, o, prefix, func(clause, format string, a ...any) {
			fail(clause, format+"%s", append(a, faultNote())...)
		})
		return inconcl == ""
	}

	// startNew(false): after a Run/RunHandlers call that returned nil - every handler added before it was started by it.
	// startNew(true): after a RunHandlers call that returned an injected error - only the handlers it did start.
	startNew := func(onlyStarted bool) bool {
		var fresh []int
		for h := 0; h < nH; h++ {
			if handles[h] != nil && !delivered[h] {
				if onlyStarted && !vlib.IsClosed(handles[h].Started()) {
					continue
				}
				fresh = append(fresh, h)
			}
		}
		if p.DelivRev {
			sort.Sort(sort.Reverse(sort.IntSlice(fresh)))
		}
		for _, h := range fresh {
			delivered[h] = true
			if !deliver(h, 0) {
				return false
			}
		}
		return true
	}

	injected := func(err error) bool { return fs != nil && err != nil && strings.Contains(err.Error(), injectedMsg) }
	noteFailedCall := func() {
		st.failedCalls++
		for h := 0; h < nH; h++ {
			if handles[h] != nil && !delivered[h] && !vlib.IsClosed(handles[h].Started()) {
				pendingAtFail[h] = true
			}
		}
	}
	// runHandlers calls RunHandlers; a call that returns an injected error is repeated (RunHandlers "can be called
	// multiple times") until it returns nil. No registration happens in between.
	runHandlers := func(failedBefore int) bool {
		for attempt := 1 + failedBefore; ; attempt++ {
			pg.set(desc, fmt.Sprintf("RunHandlers (attempt %d)", attempt), false)
			err := r.RunHandlers(ctx)
			if err == nil {
				return startNew(false)
			}
			if !injected(err) {
				inconcl = fmt.Sprintf("RunHandlers: %v | program: %s", err, desc)
				return false
			}
			noteFailedCall()
			if attempt >= maxAttempts {
				inconcl = fmt.Sprintf("RunHandlers still fails after %d attempts: %v | program: %s", attempt, err, desc)
				return false
			}
			if p.DeliverBetween && !startNew(true) {
				return false
			}
		}
	}

	ok := true
	ran := false
steps:
	for _, s := range p.Steps {
		pg.set(desc, s.Op, false)
		switch s.Op {
		case opAddH:
			hs := p.Handlers[s.H]
			var sub message.Subscriber = subs[s.H]
			if fs != nil {
				sub = &faultSub{inner: subs[s.H], fs: fs, h: s.H}
			}
			if hs.NoPub {
				hf := rec.handler(s.H, 0)
				handles[s.H] = r.AddNoPublisherHandler(hs.Name, topicIn(s.H), sub, func(m *message.Message) error {
					_, err := hf(m)
					return err
				})
			} else {
				handles[s.H] = r.AddHandler(hs.Name, topicIn(s.H), sub, topicOut(s.H), pubs[s.H], rec.handler(s.H, hs.Out))
			}
		case opMW:
			var ms []message.HandlerMiddleware
			if s.Alias {
				ms = mwBuf[:0]
				for _, id := range s.IDs {
					ms = append(ms, mwVal(id))
				}
				st.aliasCalls++
			} else {
				for _, id := range s.IDs {
					ms = append(ms, rec.middleware(id))
				}
			}
			if s.H < 0 {
				r.AddMiddleware(ms...)
			} else {
				handles[s.H].AddMiddleware(ms...)
				ownCount[s.H] += len(ms)
			}
			if s.Alias && s.Poison {
				st.poisoned++
				for i := range ms {
					ms[i] = rec.middleware(nextPoison())
				}
			}
		case opPDec:
			var ds []message.PublisherDecorator
			if s.Alias {
				ds = pdBuf[:0]
				st.aliasCalls++
			}
			for _, id := range s.IDs {
				d := pubDecorator(id, p.PLib[id%len(p.PLib)])
				if fs != nil {
					d = fs.pubDecorator(id, d)
				}
				ds = append(ds, d)
			}
			r.AddPublisherDecorators(ds...)
			if s.Alias && s.Poison {
				st.poisoned++
				for i := range ds {
					ds[i] = pubDecorator(nextPoison(), i%2 == 0)
				}
			}
		case opSDec:
			var ds []message.SubscriberDecorator
			if s.Alias {
				ds = sdBuf[:0]
				st.aliasCalls++
			}
			for _, id := range s.IDs {
				d := subDecorator(id, p.SLib[id%len(p.SLib)])
				if fs != nil {
					d = fs.subDecorator(id, d)
				}
				ds = append(ds, d)
			}
			r.AddSubscriberDecorators(ds...)
			if s.Alias && s.Poison {
				st.poisoned++
				for i := range ds {
					ds[i] = subDecorator(nextPoison(), i%2 == 0)
				}
			}
		case opRun:
			runDone = make(chan error, 1)
			go func() { runDone <- r.Run(ctx) }()
			pg.set(desc, "waiting for Running()", false)
			select {
			case <-r.Running():
				ran = true
				ok = startNew(false)
			case err := <-runDone:
				runDone = nil
				if !injected(err) {
					inconcl = fmt.Sprintf("Run returned before Running(): %v | program: %s", err, desc)
					ok = false
					break steps
				}
				// Run itself returned the injected error. Run cannot be called again ("router is already running"), the
				// retry is RunHandlers. Run cancels the context it gave to the handlers it did start, so those stop: they
				// are not judged; wait until they are gone (their middleware snapshot is taken by then).
				reapDead := func() {
					noteFailedCall()
					st.runFailed++
					for h := 0; h < nH; h++ {
						if handles[h] != nil && !delivered[h] && vlib.IsClosed(handles[h].Started()) {
							dead[h], delivered[h] = true, true
							st.dead++
							pg.set(desc, fmt.Sprintf("waiting for handler h%d, started by the failed Run, to stop", h), false)
							<-handles[h].Stopped()
						}
					}
				}
				reapDead()
				ran = true
				failed := 1
				if p.RetryRun {
					// what a caller would try first: Run again. The router refuses ("router is already running") before it
					// does anything; should it ever accept, the call is treated like any other start call.
					rd := make(chan error, 1)
					go func() { rd <- r.Run(ctx) }()
					pg.set(desc, "waiting for Running() or the refusal of the second Run", false)
					select {
					case <-r.Running():
						runDone = rd
						ok = startNew(false)
						break
					case err := <-rd:
						if injected(err) {
							reapDead()
							failed++
						} else {
							st.runRefused++
						}
					}
				}
				if runDone == nil {
					ok = runHandlers(failed)
				}
			}
			if !ok {
				break steps
			}
		case opRunH:
			if ok = runHandlers(0); !ok {
				break steps
			}
		case opDupAdd:
			// the same registration made twice: same name, topic, subscriber and publisher (the handler function is a decoy
			// that leaves a foreign mark in the trace should it ever run)
			hs := p.Handlers[s.H]
			pending := handles[s.H] != nil && !vlib.IsClosed(handles[s.H].Started())
			h2, pv := tryAdd(r, s.Variant, hs.Name, topicIn(s.H), subs[s.H], topicOut(s.H), pubs[s.H], rec.handler(900+s.H, 0))
			switch {
			case h2 != nil:
				inconcl = fmt.Sprintf("a second handler named %q was accepted (no DuplicateHandlerNameError): what the two handlers run is not specified | program: %s", hs.Name, desc)
			case !isDupErr(pv, hs.Name):
				inconcl = fmt.Sprintf("duplicate registration of %q panicked with %T %v, not with DuplicateHandlerNameError | program: %s", hs.Name, pv, pv, desc)
			}
			if inconcl != "" {
				ok, leak = false, true
				break steps
			}
			st.dupRejected++
			if pending {
				rejectedHit[s.H] = true
				if ownCount[s.H] > 0 {
					st.dupOnPending++
				}
			}
		case opEarlyRunH:
			if err := r.RunHandlers(ctx); err == nil {
				inconcl = fmt.Sprintf("RunHandlers before Run returned nil | program: %s", desc)
				ok, leak = false, true
				break steps
			}
			st.earlyRunH++
		case opEarlyStop:
			var pv any
			func() {
				defer func() { pv = recover() }()
				handles[s.H].Stop()
			}()
			if pv == nil {
				inconcl = fmt.Sprintf("Stop of the not yet started handler h%d did not panic: whether it is started later is not specified | program: %s", s.H, desc)
				ok, leak = false, true
				break steps
			}
			st.earlyStop++
			rejectedHit[s.H] = true
		case opHandover:
			// Handlers stop (Stop / end of their subscription) and RunHandlers starts the handlers added since the last start call,
			// with nobody waiting for Stopped() in between. What the middleware constructors do meanwhile is up to rec.ho.
			var stopCh []chan struct{}
			for _, h := range s.Stops {
				stopCh = append(stopCh, handles[h].Stopped())
			}
			expectArrivals := 0
			if s.Ctor == ctorPark {
				for h := 0; h < nH; h++ {
					if handles[h] == nil || delivered[h] {
						continue
					}
					for _, id := range ex[h].MW {
						if containsInt(s.Park, id) {
							expectArrivals++
							break
						}
					}
				}
			}
			ep := rec.ho.arm(s, stopCh)
			issue := func() {
				for i, h := range s.Stops {
					if s.StopKinds[i] == "subclose" {
						subs[h].Close()
					} else {
						handles[h].Stop()
					}
				}
			}
			pg.set(desc, fmt.Sprintf("handover: stopping %v (%s) and RunHandlers, constructors %s", s.Stops, s.Issue, s.Ctor), false)
			var err error
			switch s.Issue {
			case issueConcurrent:
				st.hoConcurrent++
				bar, dn := make(chan struct{}), make(chan struct{})
				go func() {
					defer close(dn)
					<-bar
					for i := 0; i < s.Jit[0]; i++ {
						runtime.Gosched()
					}
					issue()
				}()
				close(bar)
				for i := 0; i < s.Jit[1]; i++ {
					runtime.Gosched()
				}
				err = r.RunHandlers(ctx)
				<-dn
			case issueParked:
				st.hoParked++
				err = r.RunHandlers(ctx)
				if err == nil && expectArrivals > 0 {
					// every starting handler reaches the constructor it parks in (it has nothing else to wait for); should one never
					// get there (process quiescent) the stops are issued anyway and the judge says what its chain lacks
					pg.set(desc, "handover: waiting for the starting handlers to reach their parking middleware constructor", false)
					oc, _ := vlib.WaitUntil(func() bool { return ep.arrived() >= expectArrivals },
						vlib.WaitOpts{Watchdog: vlib.WD.Watchdog, IgnoreFrames: []string{"props/c09.runBatch"}, NoTimerCheck: []string{"pubsub/sync.WaitGroupTimeout"}})
					if oc != vlib.Done {
						st.hoNoPark++
					}
				}
				issue()
			default: // issueBefore
				issue()
				err = r.RunHandlers(ctx)
			}
			for _, c := range stopCh {
				if !vlib.IsClosed(c) {
					st.hoOpenAtReturn++
				}
			}
			pg.set(desc, fmt.Sprintf("handover: waiting for Stopped() of %v", s.Stops), false)
			for _, c := range stopCh {
				<-c
			}
			rec.ho.release(ep)
			arr, before, after := ep.stats()
			st.hoArrivals += arr
			st.hoCtorBefore += before
			st.hoCtorAfter += after
			st.hoRounds++
			st.hoStops += len(s.Stops)
			for _, k := range s.StopKinds {
				if k == "subclose" {
					st.hoSubClose++
				}
			}
			if err != nil {
				inconcl = fmt.Sprintf("RunHandlers (handover): %v | program: %s", err, desc)
				ok = false
				break steps
			}
			if ok = startNew(false); !ok {
				break steps
			}
		case opReuse:
			old := handles[s.H]
			hs := p.Handlers[s.N]
			var own []message.HandlerMiddleware
			for _, id := range s.IDs {
				own = append(own, rec.middleware(id))
			}
			type regResult struct {
				h     *message.Handler
				early bool // AddHandler and AddMiddleware had returned while old.Stopped() was still open
				pv    any
			}
			// the re-registration: AddHandler with the old name, at once followed by AddMiddleware on the new handler
			register := func() regResult {
				h, pv := tryAdd(r, hs.NoPub, hs.Name, topicIn(s.N), subs[s.N], topicOut(s.N), pubs[s.N], rec.handler(s.N, hs.Out))
				if h == nil {
					return regResult{pv: pv}
				}
				if len(own) > 0 {
					h.AddMiddleware(own...)
				}
				return regResult{h: h, early: !vlib.IsClosed(old.Stopped())}
			}
			stop := func() {
				if s.StopBy == "subclose" {
					subs[s.H].Close()
				} else {
					old.Stop()
				}
			}
			var rr regResult
			pg.set(desc, fmt.Sprintf("reuse of the name of h%d (%s): stopping it and registering the name again", s.H, s.Mode), false)
			switch s.Mode {
			case modeStep:
				// The logger parks every call that a router goroutine makes through the logger the Router derived (With) for the
				// stopping handler: only that handler's goroutine does. While it is parked nothing writes the handler table, the
				// caller reads Router.Handlers() (which takes no lock) and takes the name as soon as it is no longer listed.
				ep := lc.arm(epStep, 0, topicIn(s.H))
				stop()
				for rr.h == nil && rr.pv == nil {
					select {
					case pc := <-ep.arrive:
						st.polls++
						if _, taken := r.Handlers()[hs.Name]; !taken {
							rr = register()
						}
						close(pc.release)
					case <-old.Stopped():
						rr = register()
					}
				}
				lc.disarm(ep)
				parks, _ := ep.stats()
				st.logParks += parks
			case modePoll, modePollSlow:
				// A goroutine retries AddHandler until the DuplicateHandlerNameError is gone. poll-slow: the logger holds every
				// call of a router goroutine until the retrying goroutine has made a few more attempts or is done.
				mode, every := epYield, 0
				if s.Mode == modePollSlow {
					mode, every = epSlow, 2+s.N%5
				}
				ep := lc.arm(mode, every, "")
				ch := make(chan regResult, 1)
				go func() {
					after := 0
					for {
						x := register()
						if x.h == nil && isDupErr(x.pv, hs.Name) && after < 5000 {
							ep.attempt()
							if vlib.IsClosed(old.Stopped()) {
								after++
							}
							runtime.Gosched()
							continue
						}
						lc.disarm(ep)
						ch <- x
						return
					}
				}()
				stop()
				rr = <-ch
				parks, fails := ep.stats()
				st.logParks += parks
				st.pollFails += fails
			default: // modeWait
				stop()
				<-old.Stopped()
				rr = register()
			}
			if rr.h == nil {
				inconcl = fmt.Sprintf("the name %q could not be registered again after its handler was stopped: %v | program: %s", hs.Name, rr.pv, desc)
				ok, leak = false, true
				break steps
			}
			handles[s.N] = rr.h
			ownCount[s.N] = len(own)
			st.reuseRounds++
			if rr.early {
				st.reuseEarly++
			} else {
				st.reuseLate++
			}
			pg.set(desc, fmt.Sprintf("waiting for Stopped() of h%d", s.H), false)
			<-old.Stopped()
			for h := 0; h < nH; h++ {
				if h != s.N && handles[h] != nil && !delivered[h] && !vlib.IsClosed(handles[h].Started()) {
					bystander[h] = true
				}
			}
		}
	}
	// second round: RunHandlers again (idempotent), then one more message to every handler whose
	// middleware set cannot have been affected by a later registration
	if ok && ran && p.Rounds > 1 {
		pg.set(desc, "repeated RunHandlers", false)
		if err := r.RunHandlers(ctx); err != nil {
			inconcl = fmt.Sprintf("repeated RunHandlers: %v | program: %s", err, desc)
		} else {
			for h := 0; h < nH; h++ {
				if ex[h].Started && ex[h].Stable && !ex[h].Stopped && delivered[h] && !dead[h] {
					st.second++
					if !deliver(h, 1) {
						break
					}
				}
			}
		}
	}
	for h := 0; h < nH; h++ {
		e := ex[h]
		if !e.Started || !delivered[h] || dead[h] {
			continue
		}
		st.handlers++
		if pendingAtFail[h] {
			st.afterRetry++
		}
		if len(e.MW) >= 2 {
			st.orderObs++
			rl, hl := false, false
			for _, id := range e.MW {
				if isRouterLevel(p, id) {
					rl = true
				} else {
					hl = true
				}
			}
			if rl && hl {
				st.mixObs++
			}
		}
		if e.Foreign {
			st.foreignObs++
		}
		if len(e.PDec) >= 2 && !p.Handlers[h].NoPub && p.Handlers[h].Out > 0 {
			st.pObs++
		}
		if len(e.SDec) >= 2 {
			st.sObs++
		}
		if startPhase(p, h) > 0 {
			st.late++
		}
		if rejectedHit[h] && e.Own > 0 {
			st.rejectedObs++
		}
		if e.Reused {
			st.reuseJudged++
			if e.PredOwn && e.Own > 0 {
				st.reuseObs++
			}
		}
		if bystander[h] {
			st.bystanders++
		}
		if e.Handover {
			st.hoJudged++
			if e.ShiftObs {
				st.hoShiftObs++
			}
		}
	}
	rec.mu.Lock()
	st.wraps = rec.wraps
	rec.mu.Unlock()
	if fs != nil {
		st.fired, _ = fs.summary()
	}

	// shut the router down so goroutines do not pile up across programs
	if leak {
		pg.set("", "", false)
		return obs, st, viol, inconcl
	}
	pg.set(desc, "Router.Close", false)
	if err := r.Close(); err != nil && inconcl == "" {
		inconcl = fmt.Sprintf("Router.Close: %v | program: %s", err, desc)
	}
	if runDone != nil {
		pg.set(desc, "waiting for Run to return", false)
		<-runDone
	}
	pg.set("", "", false)
	return obs, st, viol, inconcl
}

func containsInt(v []int, x int) bool {
	for _, y := range v {
		if y == x {
			return true
		}
	}
	return false
}

// ---------------------------------------------------------------------------------------------
// Handover class: what the middleware constructors do while handlers stop.
//
// A HandlerMiddleware is a func(HandlerFunc) HandlerFunc supplied by the user; the Router calls it from the starting handler's
// goroutine when that handler builds its chain. It may take its time (set-up work), which is all this controller does: while an
// epoch is armed every constructor call yields, sleeps, or - for the ids in park - blocks until the harness has seen Stopped() of
// every handler that is stopping.

type hoEpoch struct {
	ctor   string
	park   map[int]bool
	gate   chan struct{}   // closed by release
	stopCh []chan struct{} // Stopped() of the handlers that stop in this step

	mu            sync.Mutex
	arrivals      int
	before, after int
}

type hoCtl struct {
	mu sync.Mutex
	ep *hoEpoch
}

func (c *hoCtl) arm(s step, stopCh []chan struct{}) *hoEpoch {
	ep := &hoEpoch{ctor: s.Ctor, park: map[int]bool{}, gate: make(chan struct{}), stopCh: stopCh}
	for _, id := range s.Park {
		ep.park[id] = true
	}
	c.mu.Lock()
	c.ep = ep
	c.mu.Unlock()
	return ep
}

func (c *hoCtl) release(ep *hoEpoch) {
	c.mu.Lock()
	if c.ep == ep {
		c.ep = nil
	}
	c.mu.Unlock()
	close(ep.gate)
}

func (ep *hoEpoch) arrived() int {
	ep.mu.Lock()
	defer ep.mu.Unlock()
	return ep.arrivals
}

func (ep *hoEpoch) stats() (arrivals, before, after int) {
	ep.mu.Lock()
	defer ep.mu.Unlock()
	return ep.arrivals, ep.before, ep.after
}

func (c *hoCtl) construct(id int) {
	c.mu.Lock()
	ep := c.ep
	c.mu.Unlock()
	if ep == nil {
		return
	}
	open := false
	for _, ch := range ep.stopCh {
		if !vlib.IsClosed(ch) {
			open = true
		}
	}
	ep.mu.Lock()
	if open {
		ep.before++
	} else {
		ep.after++
	}
	parks := ep.ctor == ctorPark && ep.park[id] && !vlib.IsClosed(ep.gate)
	if parks {
		ep.arrivals++
	}
	ep.mu.Unlock()
	switch {
	case parks:
		<-ep.gate
	case ep.ctor == ctorYield:
		for i := 0; i <= id%4; i++ {
			runtime.Gosched()
		}
	case ep.ctor == ctorSlow:
		vlib.TimerWait(time.Duration(100+(id*37)%400) * time.Microsecond)
	}
}

// ids from poisonBase on belong to middlewares / decorators the caller wrote into its own argument slice after a
// registration call had returned: they were never registered.
const poisonBase = 9000

func isRouterLevel(p *program, id int) bool {
	for _, s := range p.Steps {
		if t, ok := s.mwTarget(); ok {
			for _, x := range s.IDs {
				if x == id {
					return t < 0
				}
			}
		}
	}
	return false
}

// startPhase: 0 = started by Run, k = started by the k-th RunHandlers step.
func startPhase(p *program, h int) int {
	ph := 0
	for _, s := range p.Steps {
		switch s.Op {
		case opAddH:
			if s.H == h {
				return ph
			}
		case opReuse:
			if s.N == h {
				return ph
			}
		case opRun, opRunH, opHandover:
			ph++
		}
	}
	return -1
}

func owner(p *program, id int) string {
	for _, s := range p.Steps {
		if t, ok := s.mwTarget(); ok {
			for _, x := range s.IDs {
				if x == id {
					if t < 0 {
						return "router-level"
					}
					if p.HasReuse {
						return fmt.Sprintf("h%d %q", t, p.Handlers[t].Name)
					}
					return fmt.Sprintf("h%d", t)
				}
			}
		}
	}
	if id > poisonBase {
		return "never registered: written into the caller's argument slice after the call returned"
	}
	return "unknown"
}

// judge compares one observation with the model and names the clause that failed.
// prefix ("reuse-", "rejected-" or "") is put in front of the mw-* clause ids for handlers that took over a stopped handler's name /
// that a rejected call had targeted before their start.
func judge(p *program, h int, e expect, o observation, prefix string, fail func(clause, format string, a ...any)) {
	name := p.Handlers[h].Name
	if strings.Join(o.GotMW, " ") != strings.Join(o.WantMW, " ") {
		clause := "mw-order"
		detail := "same middlewares, different nesting"
		wantSet := map[int]bool{}
		for _, id := range e.MW {
			wantSet[id] = true
		}
		entered := map[int]int{}
		left := map[int]int{}
		hcalls, wrongH := 0, ""
		for _, ev := range o.GotMW {
			var id int
			switch ev[0] {
			case 'e':
				fmt.Sscanf(ev[1:], "%d", &id)
				entered[id]++
			case 'l':
				fmt.Sscanf(ev[1:], "%d", &id)
				left[id]++
			case 'H':
				hcalls++
				if ev != fmt.Sprintf("H%d", h) {
					wrongH = ev
				}
			}
		}
		var foreign, missing, dup []string
		for id, n := range entered {
			if !wantSet[id] {
				foreign = append(foreign, fmt.Sprintf("%d(%s)", id, owner(p, id)))
			} else if n > 1 || left[id] != n {
				dup = append(dup, fmt.Sprint(id))
			}
		}
		for _, id := range e.MW {
			if entered[id] == 0 {
				missing = append(missing, fmt.Sprintf("%d(%s)", id, owner(p, id)))
			}
		}
		sort.Strings(foreign)
		sort.Strings(missing)
		sort.Strings(dup)
		switch {
		case len(o.GotMW) == 0:
			clause, detail = "no-run", "the handler did not run at all"
		case len(foreign) > 0:
			clause, detail = "mw-foreign", "ran middleware(s) it must not run: "+strings.Join(foreign, " ")
		case len(missing) > 0:
			clause, detail = "mw-missing", "did not run middleware(s) "+strings.Join(missing, " ")
		case wrongH != "" || hcalls != 1:
			clause, detail = "handler-func", fmt.Sprintf("handler function calls=%d wrong=%q", hcalls, wrongH)
		case len(dup) > 0:
			clause, detail = "mw-duplicate", "middleware(s) entered/left more than once: "+strings.Join(dup, " ")
		}
		if strings.HasPrefix(clause, "mw-") {
			clause = prefix + clause
		}
		fail(clause, "handler h%d (%q): %s; expected trace %v, observed %v", h, name, detail, o.WantMW, o.GotMW)
		return
	}
	if o.GotSub != o.WantSub {
		clause := "subdec-order"
		if sortedMarks(o.GotSub) != sortedMarks(o.WantSub) {
			clause = "subdec-set"
		}
		if p.HasFaults {
			clause = "retry-subdec" // the handler was started by a program with failing (and retried) Run/RunHandlers calls
		}
		fail(clause, "handler h%d (%q): subscriber decorators acted on the incoming message as [%s], added as [%s]", h, name, o.GotSub, o.WantSub)
		return
	}
	for _, g := range o.GotPub {
		if g != o.WantPub {
			clause := "pubdec-order"
			if sortedMarks(g) != sortedMarks(o.WantPub) {
				clause = "pubdec-set"
			}
			if p.HasFaults {
				clause = "retry-pubdec"
			}
			fail(clause, "handler h%d (%q): publisher decorators acted on the outgoing message as [%s], added as [%s]", h, name, g, o.WantPub)
			return
		}
	}
}

func sortedMarks(s string) string {
	parts := strings.Split(s, ",")
	sort.Strings(parts)
	return strings.Join(parts, ",")
}
