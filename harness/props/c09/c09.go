// Package c09 checks property C09: middlewares nest in registration order per handler; decorators apply in order.
//
// Every case drives REAL message.Router instances through a batch of "programs" (sequences of AddHandler,
// Router.AddMiddleware, Handler.AddMiddleware, AddPublisherDecorators, AddSubscriberDecorators, Run,
// RunHandlers), sends one message to every started handler through a scripted subscriber and compares
//   - the enter/leave trace written by the recording middlewares and the handler function,
//   - the trace the subscriber decorators left in the incoming message,
//   - the trace the publisher decorators left in every produced message (as seen by the scripted publisher)
//
// with a reference model computed from the program text (see model in program.go).
package c09

import (
	"fmt"
	"strings"
	"sync"

	"verifharness/vlib"
)

const (
	exhBlocksQuick    = 48
	exhBlocksThorough = 192
	randProgsPerCase  = 8
)

func exhLen(tier string) int    { return vlib.TierN(tier, 5, 6) }
func exhBlocks(tier string) int { return vlib.TierN(tier, exhBlocksQuick, exhBlocksThorough) }
func randCases(tier string) int { return vlib.TierN(tier, 752, 62208) }

// classes added in round 4 (appended after the earlier case indices, which keep their meaning)
func aliasCases(tier string) int { return vlib.TierN(tier, 160, 8000) }
func retryCases(tier string) int { return vlib.TierN(tier, 320, 16000) }

// classes added in round 6 (appended again)
func rejectedCases(tier string) int { return vlib.TierN(tier, 160, 8000) }
func reuseCases(tier string) int    { return vlib.TierN(tier, 320, 16000) }

// class added in round 7 (appended again)
func handoverCases(tier string) int { return vlib.TierN(tier, 240, 12000) }

func init() {
	vlib.Register(&vlib.Prop{
		ID:              "C09",
		Level:           "exploration",
		RaceIsViolation: false,
		Cases: func(tier string) int {
			return exhBlocks(tier) + randCases(tier) + aliasCases(tier) + retryCases(tier) + rejectedCases(tier) + reuseCases(tier) + handoverCases(tier)
		},
		Rule: "exhaustive part (class exh): every middleware registration sequence over {router-level, handler A, handler B} of length 0..5 (quick) / 0..6 (thorough), " +
			"with AddHandler(A)/AddHandler(B) in every position the API allows (before the first registration on that handler; both orders when adjacent), each also with " +
			"adjacent same-target registrations folded into one variadic call when that differs; all before Run. The enumeration is cut into contiguous blocks, one block per case " +
			"(counter exh_programs sums to the size of the enumeration). Program k also carries publisher/subscriber decorator lists whose shape (length 0..5 x split into variadic calls) " +
			"cycles through all 32x32 shape pairs with k. Handler A's name is a prefix of handler B's. " +
			"Random part (class rand): batches of 8 programs with 4 handlers (names differing in case, by a suffix, optionally the empty name), 0..20 registrations, random variadic grouping, " +
			"handlers started by Run or by one of up to two later RunHandlers calls (registrations for a handler only before the call that starts it), decorator lists 0..5 added before Run at random positions, " +
			"shared or separate scripted Pub/Sub ends, 0..2 produced messages, some no-publisher handlers; half the programs call RunHandlers once more and send a second message to handlers with no later router-level registration. " +
			"Class alias: rand programs in which 3 of 4 registration calls (Router.AddMiddleware, Handler.AddMiddleware, AddPublisherDecorators, AddSubscriberDecorators) pass their arguments as buf[:n]... " +
			"with ONE caller-owned slice per kind that has spare capacity and is re-used by the following calls (each call overwrites the elements of the previous one); 40% of the aliased middleware calls extend a prefix of the previous call's " +
			"arguments (append(base, x)... with a shared backing array: the same middleware value is registered again, possibly for another target), and after 40% of the aliased calls the caller overwrites every element with a " +
			"never-registered middleware/decorator (ids > 9000). The model is computed from the argument VALUES at call time. " +
			"Classes retry/pdec-fault, retry/sdec-fault, retry/subscribe-fault, retry/mixed: rand programs (with >=2 decorators of the faulted kind) plus 1..3 transient faults: a publisher/subscriber decorator constructor that " +
			"returns an error on its n-th (n<=4) and possibly n+1-th invocation, or a handler subscriber whose first one or two Subscribe calls fail (after the decoration succeeded). A Run/RunHandlers call that returns the injected " +
			"error is retried with RunHandlers until it returns nil, with no registration in between (after a failed Run half the programs first call Run again, which the router refuses with 'router is already running', then RunHandlers; the handlers a failed Run had started are stopped by Run's own context cancel and are not judged); " +
			"handlers that a failed RunHandlers did start get their message before or after the retry. Every finally running handler must show each decorator exactly once in the order added (clauses retry-pubdec, retry-subdec) and its middleware chain. " +
			"Class rejected: rand programs plus 1..4 calls that fail as documented and are recovered by the caller: AddHandler or AddNoPublisherHandler with a name that is taken (the same name, topic, subscriber and publisher again; panics with DuplicateHandlerNameError), " +
			"Handler.Stop on a not yet started handler (panics), RunHandlers before Run (returns an error); 80% target a handler with handler-level middlewares, mostly between one of its registrations and the Run/RunHandlers call that starts it (before Run as well as on a running router), 20% anywhere later. " +
			"A rejected call registers nothing: the model ignores it, every handler must run what was registered (clauses rejected-mw-missing / rejected-mw-foreign / rejected-mw-order for the targeted handlers). " +
			"Class reuse: a rand program (at whose end all 4 handlers run and have handled a message) followed by 1..3 rounds: [a bystander handler whose name extends the reused name is added with 0..2 middlewares, not started] a running handler " +
			"(70%: one with handler-level middlewares; also a previously re-registered one) is stopped by Handler.Stop or by closing its subscriber and its NAME is registered again with AddHandler/AddNoPublisherHandler (new topic, subscriber, publisher), immediately followed by " +
			"AddMiddleware of 0..3 middlewares on the new handler; timing of the re-registration: wait = after <-old.Stopped(); step = the router's LoggerAdapter (a harness logger) parks every call that a router goroutine makes through the logger the Router derived with With() for the stopping handler (recognised by the topic field), at each parked call the caller reads Router.Handlers() and " +
			"re-registers as soon as the name is not listed, then releases the call; poll = a goroutine started before the stop retries AddHandler until it no longer panics with DuplicateHandlerNameError while the logger yields; poll-slow = same with a logger that holds every call of a router " +
			"goroutine until the retrying goroutine failed 2..6 more times or is done (the logger never looks at the message text; calls made from harness goroutines pass). The round goes on after old.Stopped() is closed with router-level and further handler-level registrations, in 40% rejected calls as above, and RunHandlers; " +
			"the new handler (and the bystander) get one message: exactly the router-level middlewares plus its own in registration order, none of the stopped handler's (clauses reuse-mw-missing / reuse-mw-foreign / reuse-mw-order). " +
			"Class handover (a handler starts while another one stops): a rand program (all 4 handlers run and have handled a message) followed by 1..3 rounds: while everything is quiet 1..3 new handlers are added (30%: with a name that extends the name of a handler about to stop) " +
			"with 0..3 middlewares each, interleaved with 0..2 router-level registrations; then ONE step stops 1..2 running handlers (80%: ones with handler-level middlewares; by Handler.Stop, 30% by closing their subscriber = end of subscription) and calls RunHandlers for the new handlers WITHOUT waiting for Stopped(): " +
			"issue=before: stops, then RunHandlers at once; issue=concurrent: a second goroutine issues the stops (after 0..3 yields) while the caller (after 0..3 yields) is in RunHandlers; issue=parked: RunHandlers first, the stops are issued once every starting handler sits in a middleware constructor. " +
			"The middleware constructors (the func(HandlerFunc) HandlerFunc, which the Router calls from the starting handler's goroutine when it builds the chain) are plain, yield 1..4 times, take 100..500us (timer), or ctor=park: for each starting handler one of the middlewares it must run (router-level or own; 40% the innermost, whose constructor is called first) " +
			"blocks in its constructor until the caller has seen Stopped() of every stopping handler (65% of the steps park; the rest leaves the interleaving to the scheduler). Only then the started handlers get their message: exactly the router-level middlewares plus their own, each once, in registration order " +
			"(clauses handover-mw-duplicate / handover-mw-missing / handover-mw-foreign / handover-mw-order); surviving handlers with no later router-level registration get a second message at the end. Counters tell how many constructor calls really happened while a handler was stopping and how many stopped handlers were not yet Stopped() when RunHandlers returned. " +
			"One message per started handler per round; each is judged against the reference model. " +
			"A case is non-trivial when at least one judged handler ran >=2 middlewares mixing router-level and handler-level ones (nesting order observable) and at least one judged handler had a foreign " +
			"handler's middleware registered before its start (exclusion observable); alias cases need in addition >=1 aliased call; retry cases instead need >=1 fault that fired, >=1 judged handler that a failed call had left unstarted " +
			"and >=1 judged handler with >=2 publisher or subscriber decorators; rejected cases need in addition >=1 duplicate-name call that hit a not yet started handler with handler-level middlewares; reuse cases need in addition >=1 judged re-registered handler with middlewares of its own whose predecessor had some too; handover cases need in addition >=1 judged handler started by a handover step that runs a middleware registered after a handler-level middleware of a handler stopped by that step, and >=1 constructor call observed while a stopping handler's Stopped() was still open; distinct = distinct block (exh) or distinct hash of the program texts incl. argument-passing marks, fault plans, rejected calls, reuse rounds and handover steps (rand, alias, retry, rejected, reuse, handover).",
		Assumptions: []string{
			"all registrations that may affect a handler happen before the Run/RunHandlers call that starts it; before further registrations are made every started handler has handled one message (so its asynchronous middleware snapshot is taken): registrations after a handler's start are unspecified and never judged",
			"decorators are added before Run only",
			"what a registration call registers is the value of its arguments when the call is made: the caller may re-use, append to or overwrite its own slice after the call returned (Go passes s... by reference; the property speaks about registrations, not about slices)",
			"retry classes: an error returned by a decorator or by Subscribe is transient and the caller reacts by calling RunHandlers again (godoc: 'RunHandlers is idempotent, so can be called multiple times safely'); a failing call registers nothing and must leave nothing behind that changes which decorators act on the handler's messages once it runs; only injected errors are retried, any other error is inconclusive",
			"a message that is never handled although the process is quiescent is reported as clause no-run (decided by the quiescence detector); a hang in Close/Run-return is reported inconclusive, it belongs to C06/C07",
			"class rejected: only calls whose failure is documented (typed panic DuplicateHandlerNameError, panic 'handler is not started', error 'you can't call RunHandlers on non-running router') are issued; should such a call succeed, the case is inconclusive (what happens then is not specified)",
			"class reuse: a name may be registered again as soon as AddHandler accepts it (the Router does not require waiting for Stopped()); only one handler is stopping at a time and 3 others keep the router open; router-level registrations are made only when no handler goroutine is starting or stopping (after old.Stopped(), before RunHandlers); Handler.AddMiddleware on the handle of a stopped handler is never called (a registration after the handler's start is unspecified); Router.Handlers() is read only while the stopping handler's goroutine is parked in the logger (it takes no lock)",
			"class handover: Handler.Stop is asynchronous ('You can check if handler was stopped with Stopped()') and RunHandlers 'can be called multiple times safely', so starting handlers while others stop is supported use; a HandlerMiddleware may do set-up work (block, yield, sleep) when the Router calls it; " +
				"all registrations of a round are made while no handler goroutine is starting or stopping (every started handler has handled a message, every stopped handler's Stopped() is closed); at least one handler that neither stops nor starts keeps the router open; " +
				"a starting handler that never reaches its parking constructor is decided by the quiescence detector (then the step goes on unparked), never by a time-out",
			"data races are not claimed by this property (Router.AddMiddleware takes no lock; the workload orders it after the snapshots by construction)",
		},
		Run: run,
	})
}

func run(e *vlib.Env) vlib.Result {
	nb := exhBlocks(e.Tier)
	if e.Idx < nb {
		all := exhEnumerate(exhLen(e.Tier))
		lo, hi := len(all)*e.Idx/nb, len(all)*(e.Idx+1)/nb
		res := runBatch(e, "exh", hi-lo, func(i int) *program {
			k := lo + i
			return exhProgram(all[k], k, fmt.Sprintf("%s.%d", e.ID(), k))
		})
		res.Sig = vlib.Sig("exh", exhLen(e.Tier), e.Idx)
		res.Count("exh_programs", hi-lo)
		return res
	}
	if e.Idx < nb+randCases(e.Tier) && (e.Idx-nb)%8 == 7 {
		return runConcurrentRegistration(e)
	}
	class, tag := "rand", "rand"
	gen := randProgram
	if k := e.Idx - nb - randCases(e.Tier); k >= aliasCases(e.Tier)+retryCases(e.Tier)+rejectedCases(e.Tier)+reuseCases(e.Tier) {
		class, tag = "handover", "handover"
		gen = handoverProgram
	} else if k >= aliasCases(e.Tier)+retryCases(e.Tier)+rejectedCases(e.Tier) {
		class, tag = "reuse", "reuse"
		gen = reuseProgram
	} else if k >= aliasCases(e.Tier)+retryCases(e.Tier) {
		class, tag = "rejected", "rejected"
		gen = rejectedProgram
	} else if k >= aliasCases(e.Tier) {
		fam := (k - aliasCases(e.Tier)) % nFamilies
		class, tag = "retry/"+familyName[fam], "retry"
		gen = func(r *vlib.Rand, id string) *program { return retryProgram(r, id, fam) }
	} else if k >= 0 {
		class, tag = "alias", "alias"
		gen = aliasProgram
	}
	r := e.R.Fork()
	progs := make([]*program, randProgsPerCase)
	var texts []string
	for i := range progs {
		progs[i] = gen(r, fmt.Sprintf("%s.%d", e.ID(), i))
		texts = append(texts, progs[i].String(), fmt.Sprint(shape(progs[i])))
	}
	res := runBatch(e, class, len(progs), func(i int) *program { return progs[i] })
	res.Sig = vlib.Sig(class, texts)
	res.Count(tag+"_programs", len(progs))
	return res
}

func shape(p *program) []any {
	var s []any
	for _, h := range p.Handlers {
		s = append(s, h.NoPub, h.Out)
	}
	return append(s, p.SharedSub, p.SharedPub, p.Rounds)
}

type sample struct {
	Program  string        `json:"program"`
	Handlers []string      `json:"handler_names"`
	Obs      []observation `json:"observations"`
}

func runBatch(e *vlib.Env, class string, n int, prog func(i int) *program) vlib.Result {
	res := vlib.Result{Class: class}
	pg := &progress{}
	var mu sync.Mutex
	var tot progStats
	var viol *verdict
	var violObs []observation
	var inconcl string
	var smp *sample
	smpRich := false
	var panicked any
	done := make(chan struct{})
	go func() {
		defer close(done)
		defer func() {
			if r := recover(); r != nil {
				mu.Lock()
				panicked = r
				mu.Unlock()
			}
		}()
		for i := 0; i < n; i++ {
			p := prog(i)
			obs, st, v, inc := runProgram(p, fmt.Sprintf("%s.%s%d", e.ID(), strings.SplitN(class, "/", 2)[0], i), pg)
			mu.Lock()
			tot.add(st)
			if v != nil && viol == nil {
				viol, violObs = v, obs
			}
			if inc != "" && inconcl == "" {
				inconcl = inc
			}
			// sample: the first program in which both nesting order and exclusion were observable (else the first one)
			if rich := st.mixObs > 0 && st.foreignObs > 0; smp == nil || (rich && !smpRich) {
				var names []string
				for _, h := range p.Handlers {
					names = append(names, h.Name)
				}
				smp, smpRich = &sample{Program: p.String(), Handlers: names, Obs: obs}, rich
			}
			stop := viol != nil
			mu.Unlock()
			if stop {
				return
			}
		}
	}()
	oc, dump := vlib.WaitClosed(done, vlib.WaitOpts{Watchdog: vlib.WD.Watchdog, NoTimerCheck: []string{"pubsub/sync.WaitGroupTimeout"}})
	mu.Lock()
	defer mu.Unlock()
	if panicked != nil {
		panic(fmt.Sprintf("program runner panicked: %v (at %v)", panicked, pgString(pg)))
	}
	res.Events = tot.events
	res.Count("handlers_judged", tot.handlers)
	res.Count("handlers_order_observable", tot.orderObs)
	res.Count("handlers_mixed_levels", tot.mixObs)
	res.Count("handlers_exclusion_observable", tot.foreignObs)
	res.Count("handlers_pubdec_order_observable", tot.pObs)
	res.Count("handlers_subdec_order_observable", tot.sObs)
	res.Count("handlers_started_by_RunHandlers", tot.late)
	res.Count("second_round_messages", tot.second)
	res.Count("middleware_constructor_calls", tot.wraps)
	res.NonTrivial = tot.mixObs > 0 && tot.foreignObs > 0
	switch {
	case class == "alias":
		res.Count("aliased_registration_calls", tot.aliasCalls)
		res.Count("aliased_calls_overwritten_after_return", tot.poisoned)
		res.NonTrivial = res.NonTrivial && tot.aliasCalls > 0
	case strings.HasPrefix(class, "retry/"):
		res.Count("faults_fired", tot.fired)
		res.Count("start_calls_failed", tot.failedCalls)
		res.Count("start_calls_failed_Run", tot.runFailed)
		res.Count("second_Run_refused_then_RunHandlers", tot.runRefused)
		res.Count("handlers_judged_after_failed_start_call", tot.afterRetry)
		res.Count("handlers_stopped_by_failed_Run_not_judged", tot.dead)
		res.NonTrivial = tot.fired > 0 && tot.afterRetry > 0 && tot.pObs+tot.sObs > 0
	}
	if class == "rejected" || class == "reuse" {
		res.Count("rejected_duplicate_name_calls", tot.dupRejected)
		res.Count("rejected_duplicate_name_calls_on_unstarted_handler_with_middlewares", tot.dupOnPending)
		res.Count("rejected_RunHandlers_before_Run", tot.earlyRunH)
		res.Count("rejected_Stop_of_unstarted_handler", tot.earlyStop)
		res.Count("handlers_judged_after_rejected_call_on_them", tot.rejectedObs)
		if class == "rejected" {
			res.NonTrivial = res.NonTrivial && tot.dupOnPending > 0
		}
	}
	if class == "reuse" {
		res.Count("names_registered_again", tot.reuseRounds)
		res.Count("names_registered_again_before_Stopped_closed", tot.reuseEarly)
		res.Count("names_registered_again_after_Stopped_closed", tot.reuseLate)
		res.Count("reused_name_handlers_judged", tot.reuseJudged)
		res.Count("reused_name_handlers_inheritance_and_loss_observable", tot.reuseObs)
		res.Count("bystander_handlers_judged", tot.bystanders)
		res.Count("logger_calls_of_router_goroutines_held", tot.logParks)
		res.Count("AddHandler_retries_on_DuplicateHandlerNameError", tot.pollFails)
		res.Count("Router_Handlers_polls", tot.polls)
		res.NonTrivial = res.NonTrivial && tot.reuseObs > 0
	}
	if class == "handover" {
		res.Count("handover_steps", tot.hoRounds)
		res.Count("handlers_stopped_without_waiting_for_Stopped", tot.hoStops)
		res.Count("handlers_stopped_by_end_of_subscription", tot.hoSubClose)
		res.Count("handover_steps_stops_issued_by_second_goroutine_during_RunHandlers", tot.hoConcurrent)
		res.Count("handover_steps_stops_issued_while_starting_handlers_sat_in_constructor", tot.hoParked)
		res.Count("stopped_handlers_not_yet_Stopped_when_RunHandlers_returned", tot.hoOpenAtReturn)
		res.Count("constructor_calls_parked_until_Stopped", tot.hoArrivals)
		res.Count("constructor_calls_while_a_handler_was_stopping", tot.hoCtorBefore)
		res.Count("constructor_calls_after_stopped_handlers_were_gone", tot.hoCtorAfter)
		res.Count("handlers_started_while_another_stopped_judged", tot.hoJudged)
		res.Count("handlers_started_while_another_stopped_removal_before_own_entries", tot.hoShiftObs)
		res.Count("starting_handlers_never_reached_parking_constructor", tot.hoNoPark)
		res.NonTrivial = res.NonTrivial && tot.hoShiftObs > 0 && tot.hoCtorBefore > 0
	}
	if smp != nil {
		res.Sample = smp
	}
	switch oc {
	case vlib.Stuck:
		prog, phase, inMsg := pg.get()
		if inMsg {
			res.Fail("no-run", "%s was never handled to completion (process quiescent) | program: %s", phase, prog)
			res.Witness = dump
		} else {
			res.Inconclusive("program runner stuck in %q (not a C09 matter) | program: %s", phase, prog)
			res.Witness = dump
		}
	case vlib.Inconclusive:
		res.Inconclusive("batch did not finish before the watchdog (%s)", pgString(pg))
	}
	if viol != nil {
		res.Fail(viol.clause, "%s", viol.reason)
		res.Witness = violObs
	} else if inconcl != "" {
		res.Inconclusive("%s", inconcl)
	}
	return res
}

func pgString(pg *progress) string {
	prog, phase, _ := pg.get()
	return fmt.Sprintf("phase %q of program %s", phase, prog)
}
