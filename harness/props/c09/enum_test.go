package c09

import (
	"fmt"
	"testing"

	"verifharness/vlib"
)

func TestEnumerationSize(t *testing.T) {
	for _, L := range []int{5, 6} {
		all := exhEnumerate(L)
		shapes := map[string]bool{}
		seqs := map[string]bool{}
		for k, d := range all {
			shapes[fmt.Sprint(k%32, (k/32)%32)] = true
			seqs[fmt.Sprint(d.seq)] = true
		}
		t.Logf("L=%d programs=%d sequences=%d decorator shape pairs=%d", L, len(all), len(seqs), len(shapes))
		if len(shapes) != 1024 {
			t.Fatalf("decorator shapes not all covered: %d", len(shapes))
		}
	}
	if len(compositions) != 32 {
		t.Fatal(len(compositions))
	}
	r := vlib.NewRand(1, "C09", 0)
	for i := 0; i < 5; i++ {
		p := randProgram(r, "x")
		t.Logf("%s", p)
		t.Logf("%+v", model(p))
	}
	t.Logf("%s", exhProgram(exhEnumerate(5)[3000], 3000, "y"))
	for i := 0; i < 3; i++ {
		p := aliasProgram(r, "a")
		t.Logf("alias: %s", p)
		t.Logf("%+v", model(p))
	}
	for fam := 0; fam < nFamilies; fam++ {
		p := retryProgram(r, "f", fam)
		if !p.HasFaults || len(p.Faults) == 0 {
			t.Fatalf("no faults in %s", p)
		}
		t.Logf("retry/%s: %s", familyName[fam], p)
	}
	for i := 0; i < 4; i++ {
		p := rejectedProgram(r, "j")
		if !p.HasRejected {
			t.Fatal("no rejected calls")
		}
		t.Logf("rejected: %s", p)
	}
	for i := 0; i < 6; i++ {
		p := reuseProgram(r, "u")
		if countReuse(p) == 0 {
			t.Fatal("no reuse round")
		}
		t.Logf("reuse: %s", p)
		ex := model(p)
		for h, e := range ex {
			if !e.Started {
				t.Fatalf("handler %d never started in %s", h, p)
			}
		}
	}
	for i := 0; i < 6; i++ {
		p := handoverProgram(r, "o")
		if countHandover(p) == 0 {
			t.Fatal("no handover step")
		}
		t.Logf("handover: %s", p)
		for h, e := range model(p) {
			if !e.Started {
				t.Fatalf("handler %d never started in %s", h, p)
			}
		}
	}
}
