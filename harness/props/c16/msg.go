package c16

import (
	"bytes"
	"fmt"
	"strings"

	"github.com/ThreeDotsLabs/watermill/message"

	"verifharness/vlib"
)

// ---------------------------------------------------------------------------------------------------------
// Equals <=> independent full comparison, both argument orders

var pairKinds = []string{
	"identical", "identical-other-ctor", "uuid", "payload-byte", "payload-length", "payload-nil-vs-empty",
	"value", "key-renamed", "key-renamed-empty-value", "empty-value-vs-absent", "extra-key", "value-swap",
	"meta-nil-vs-empty", "independent",
}

// freshKey returns a key that is not in m.
func freshKey(r *vlib.Rand, m map[string]string, near string) string {
	for i := 0; ; i++ {
		var k string
		switch r.Intn(7) {
		case 0:
			k = near + string(rune(r.Intn(3))) // near-miss: old key + NUL/SOH/STX
		case 1:
			k = near + "\u0301" // combining acute: canonically close, bytewise different
		case 2:
			k = ""
		case 3:
			// near-miss that a trimmed / unescaped / formatted / case-folded comparison would not see
			k = [][2]string{{" ", ""}, {"", " "}, {"", "\n"}, {"", "%"}, {"%", ""}, {"\\", ""}, {"", "\\"}, {"\"", "\""}, {"", "\ufeff"}}[r.Intn(9)][0] + near
			if r.Bool() {
				k = near + []string{" ", "\n", "\t", "%", "%s", "\\", "\"", "&", ";", "\u200b"}[r.Intn(10)]
			}
		case 4:
			k = strings.ToUpper(near)
			if k == near {
				k = strings.ToLower(near)
			}
		default:
			k = genStr(r)
		}
		if i > 20 {
			k = fmt.Sprintf("%s#%d", near, i)
		}
		if _, ok := m[k]; !ok && k != near {
			return k
		}
	}
}

func pickKey(r *vlib.Rand, m map[string]string) string {
	ks := sortedKeys(m)
	return ks[r.Intn(len(ks))]
}

func differentStr(r *vlib.Rand, old string) string {
	for {
		var s string
		switch r.Intn(9) {
		case 0:
			s = ""
		case 1:
			s = old + " "
		case 2:
			s = strings.ToUpper(old)
		case 3:
			s = old + "\x00"
		case 4:
			s = []string{" ", "\n", "\t", "\ufeff", "%", "\\", "\""}[r.Intn(7)] + old
		case 5:
			s = old + []string{"\n", "\r\n", "\t", "%", "%s", "%!(NOVERB)", "\\", "\"", "&amp;", "\u0301"}[r.Intn(10)]
		case 6:
			// the text with one kind of escaping applied: differs bytewise from the original whenever it changes anything
			s = strings.NewReplacer("%", "%%", "\\", "\\\\", "\"", "\\\"", "<", "&lt;", "&", "&amp;", " ", "%20", "\n", "\\n").Replace(old)
		default:
			s = genStr(r)
		}
		if s != old {
			return s
		}
	}
}

// mkPair derives a pair (a, b) from base that differs in exactly the component named by kind.
// wantDiffer tells what the construction intends (a harness self-check against refEqual).
func mkPair(r *vlib.Rand, base msgSpec, kind string) (a, b msgSpec, wantDiffer bool, ok bool) {
	a = base.clone()
	b = base.clone()
	switch kind {
	case "identical":
		return a, b, false, true
	case "identical-other-ctor":
		if a.NilMeta {
			return a, b, false, false
		}
		b.Literal = !a.Literal
		return a, b, false, true
	case "uuid":
		b.UUID = differentStr(r, a.UUID)
		return a, b, true, true
	case "payload-byte":
		if len(a.Payload) == 0 {
			return a, b, false, false
		}
		i := r.Intn(len(b.Payload))
		b.Payload[i] ^= byte(1 << uint(r.Intn(8)))
		return a, b, true, true
	case "payload-length":
		if len(a.Payload) > 0 && r.Bool() {
			if r.Bool() {
				b.Payload = append([]byte{}, a.Payload[:len(a.Payload)-1]...) // last byte dropped
			} else {
				b.Payload = append([]byte{}, a.Payload[1:]...) // first byte dropped
			}
		} else {
			b.Payload = append(append([]byte{}, a.Payload...), byte(r.Intn(2)*r.Intn(256))) // one byte (often NUL) appended
		}
		b.NilPay = false
		return a, b, true, true
	case "payload-nil-vs-empty":
		a.Payload, a.NilPay = nil, true
		b.Payload, b.NilPay = []byte{}, false
		return a, b, false, true
	case "value":
		if len(a.Meta) == 0 {
			return a, b, false, false
		}
		k := pickKey(r, a.Meta)
		b.Meta[k] = differentStr(r, a.Meta[k])
		return a, b, true, true
	case "key-renamed":
		if len(a.Meta) == 0 {
			return a, b, false, false
		}
		k := pickKey(r, a.Meta)
		nk := freshKey(r, a.Meta, k)
		delete(b.Meta, k)
		b.Meta[nk] = a.Meta[k]
		return a, b, true, true
	case "key-renamed-empty-value":
		// both sides carry the same number of keys; the renamed key's value is "" on both sides
		if a.NilMeta {
			a.NilMeta, b.NilMeta = false, false
		}
		k := freshKey(r, a.Meta, genStr(r))
		if len(a.Meta) > 0 && r.Bool() {
			k = pickKey(r, a.Meta)
		}
		a.Meta[k] = ""
		delete(b.Meta, k)
		b.Meta[freshKey(r, a.Meta, k)] = ""
		return a, b, true, true
	case "empty-value-vs-absent":
		if a.NilMeta {
			a.NilMeta = false
		}
		k := freshKey(r, a.Meta, genStr(r))
		a.Meta[k] = ""
		return a, b, true, true
	case "extra-key":
		if b.NilMeta {
			b.NilMeta = false
		}
		b.Meta[freshKey(r, a.Meta, genStr(r))] = genStr(r)
		return a, b, true, true
	case "value-swap":
		ks := sortedKeys(a.Meta)
		if len(ks) < 2 {
			return a, b, false, false
		}
		p := r.Perm(len(ks))
		k1, k2 := ks[p[0]], ks[p[1]]
		if a.Meta[k1] == a.Meta[k2] {
			return a, b, false, false
		}
		b.Meta[k1], b.Meta[k2] = a.Meta[k2], a.Meta[k1]
		return a, b, true, true
	case "meta-nil-vs-empty":
		a.Meta, a.NilMeta, a.Literal = map[string]string{}, true, true
		b.Meta, b.NilMeta = map[string]string{}, false
		return a, b, false, true
	case "independent":
		b = genSpec(r)
		return a, b, !refEqual(a, b), true
	}
	panic(harnessBug("unknown pair kind " + kind))
}

// corpusPairs are small hand-written pairs judged first in every equals case, so that a law that is broken
// for a whole family of inputs is witnessed by a legible pair. Expectations still come from refEqual.
func corpusPairs() []struct {
	kind string
	a, b msgSpec
} {
	mk := func(meta map[string]string) msgSpec {
		return msgSpec{UUID: "u", Payload: []byte("p"), Meta: meta}
	}
	return []struct {
		kind string
		a, b msgSpec
	}{
		{"identical", mk(map[string]string{"a": "", "k": "v"}), mk(map[string]string{"k": "v", "a": ""})},
		{"key-renamed-empty-value", mk(map[string]string{"a": ""}), mk(map[string]string{"b": ""})},
		{"key-renamed-empty-value", mk(map[string]string{"a": "", "k": "v"}), mk(map[string]string{"b": "", "k": "v"})},
		{"key-renamed", mk(map[string]string{"a": "v"}), mk(map[string]string{"b": "v"})},
		{"empty-value-vs-absent", mk(map[string]string{"a": ""}), mk(map[string]string{})},
		{"value", mk(map[string]string{"a": ""}), mk(map[string]string{"a": "v"})},
		{"value-swap", mk(map[string]string{"a": "", "b": "v"}), mk(map[string]string{"a": "v", "b": ""})},
	}
}

func runEquals(e *vlib.Env, res *vlib.Result) {
	const nMsgs = 48
	var f feat
	var sigParts []any
	nTrue, nFalse, skipped := 0, 0, 0
	var samples []any
	// judge runs Equals in both argument orders on fresh messages built from (a, b) and compares with the reference.
	judge := func(kind string, a, b msgSpec) {
		want := refEqual(a, b)
		ma, mb := a.build(), b.build()
		var ab, ba bool
		if p := guard(func() { ab = ma.Equals(mb); ba = mb.Equals(ma) }); p != "" {
			res.Fail("panic", "Equals panicked (%s) for pair kind %s: a=%v b=%v", p, kind, a, b)
			return
		}
		res.Events += 2
		res.Count("pairs/"+kind, 1)
		if want {
			nTrue++
		} else {
			nFalse++
		}
		if len(samples) < 4 && len(a.Meta) > 0 && (kind == "key-renamed" || kind == "value" || kind == "identical") {
			samples = append(samples, map[string]any{"kind": kind, "a": a, "b": b, "want": want, "a.Equals(b)": ab, "b.Equals(a)": ba})
		}
		for di, got := range []bool{ab, ba} {
			dir := []string{"a.Equals(b)", "b.Equals(a)"}[di]
			if got == want {
				continue
			}
			clause := "equals-true-for-different"
			if want {
				clause = "equals-false-for-same"
			}
			res.Fail(clause, "pair kind %s: %s = %v but the independent comparison of UUID, payload bytes and key/value sets says %v; a=%v b=%v", kind, dir, got, want, a, b)
			res.Witness = map[string]any{"kind": kind, "a": a, "b": b, "a.Equals(b)": ab, "b.Equals(a)": ba, "reference": want}
		}
		// the same pair again with both payloads cut from ONE backing array (frames of one buffer, a truncated Copy):
		// possible whenever one payload is a byte prefix of the other; Equals must still decide on the bytes and lengths only.
		la, lb := len(a.Payload), len(b.Payload)
		lo, long := la, b.Payload
		if lb < la {
			lo, long = lb, a.Payload
		}
		if a.NilPay || b.NilPay || lo == 0 || !bytes.Equal(a.Payload[:lo], b.Payload[:lo]) {
			return
		}
		buf := append(make([]byte, 0, len(long)+1), long...)
		sa, sb := a.build(), b.build()
		sa.Payload, sb.Payload = buf[:la:la], buf[:lb:lb]
		var sab, sba bool
		if p := guard(func() { sab = sa.Equals(sb); sba = sb.Equals(sa) }); p != "" {
			res.Fail("panic", "Equals panicked (%s) for pair kind %s with payloads sharing a backing array: a=%v b=%v", p, kind, a, b)
			return
		}
		res.Events += 2
		res.Count("pairs_shared_backing_array", 1)
		if la != lb {
			res.Count("pairs_shared_backing_array_different_length", 1)
		}
		for di, got := range []bool{sab, sba} {
			if got == want {
				continue
			}
			clause := "equals-true-for-different"
			if want {
				clause = "equals-false-for-same"
			}
			res.Fail(clause, "pair kind %s, payloads are slices [:%d] and [:%d] of one backing array: %s = %v but the independent comparison says %v; a=%v b=%v", kind, la, lb, []string{"a.Equals(b)", "b.Equals(a)"}[di], got, want, a, b)
			res.Witness = map[string]any{"kind": kind, "shared_backing_array": true, "a": a, "b": b, "a.Equals(b)": sab, "b.Equals(a)": sba, "reference": want}
		}
	}
	for _, cp := range corpusPairs() {
		judge(cp.kind, cp.a, cp.b)
	}
	sw := newSweeper(e, nMsgs/4)
	for i := 0; i < nMsgs; i++ {
		base := genSpec(e.R)
		if i%4 == 0 {
			applySweep(e.R, &base, sw.at(i/4), e.Idx/len(c16Classes)+i/4)
		}
		f.addSpec(base)
		sigParts = append(sigParts, base.String())
		for _, kind := range pairKinds {
			a, b, wantDiffer, ok := mkPair(e.R, base, kind)
			if !ok {
				skipped++
				continue
			}
			if refEqual(a, b) == wantDiffer {
				panic(harnessBug(fmt.Sprintf("pair kind %s: construction and reference disagree for a=%v b=%v", kind, a, b)))
			}
			judge(kind, a, b)
		}
	}
	// all pairs are judged even after a failure (the first one is reported), so the signature covers the whole batch
	res.Count("inputs", nMsgs)
	res.Count("equals_expected_true", nTrue)
	res.Count("equals_expected_false", nFalse)
	res.Count("pairs_not_applicable", skipped)
	res.Count("corpus_sweep_strings", sw.used)
	f.report(res)
	res.NonTrivial = res.Failed() || (nTrue > 0 && nFalse > 0 && f.unusual())
	res.Sig = vlib.Sig("equals", sigParts)
	if !res.Failed() {
		res.Sample = map[string]any{"messages": nMsgs, "pairs_expected_equal": nTrue, "pairs_expected_different": nFalse, "examples": samples}
	}
}

// ---------------------------------------------------------------------------------------------------------
// Copy: equal to the original, metadata owned by each side

// editMeta applies one random edit to md and the same edit to the tracking spec.
func editMeta(r *vlib.Rand, md message.Metadata, track map[string]string) string {
	op := r.Intn(4)
	if len(track) == 0 {
		op = 0
	}
	switch op {
	case 0:
		k, v := freshKey(r, track, genStr(r)), genStr(r)
		md.Set(k, v)
		track[k] = v
		return "set-new " + showStr(k)
	case 1:
		k := pickKey(r, track)
		v := differentStr(r, track[k])
		md.Set(k, v)
		track[k] = v
		return "overwrite " + showStr(k)
	case 2:
		k := pickKey(r, track)
		delete(md, k)
		delete(track, k)
		return "delete " + showStr(k)
	default:
		k := pickKey(r, track)
		v := differentStr(r, track[k])
		md[k] = v
		track[k] = v
		return "assign " + showStr(k)
	}
}

func runCopy(e *vlib.Env, res *vlib.Result) {
	const nMsgs = 64
	var f feat
	var sigParts []any
	edits, withMeta := 0, 0
	var samples []any
	sw := newSweeper(e, nMsgs/4)
	for i := 0; i < nMsgs; i++ {
		spec := genSpec(e.R)
		if i%4 == 0 {
			applySweep(e.R, &spec, sw.at(i/4), e.Idx/len(c16Classes)+i/4)
		}
		f.addSpec(spec)
		sigParts = append(sigParts, spec.String())
		if len(spec.Meta) > 0 {
			withMeta++
		}
		m := spec.build()
		var c *message.Message
		var eq1, eq2 bool
		if p := guard(func() { c = m.Copy(); eq1 = c.Equals(m); eq2 = m.Equals(c) }); p != "" {
			res.Fail("panic", "Copy/Equals panicked (%s) for %v", p, spec)
			return
		}
		res.Events += 4
		if !eq1 || !eq2 {
			res.Fail("copy-not-equal", "Copy().Equals(orig)=%v, orig.Equals(Copy())=%v for %v; copy is {uuid=%s payload=%s metadata=%s}", eq1, eq2, spec, showStr(c.UUID), showBytes(c.Payload), showMeta(c.Metadata))
		}
		if d := spec.matches(c); d != "" {
			res.Fail("copy-not-equal", "the copy differs from the original in an independent comparison: %s; original %v", d, spec)
		}
		if d := spec.matches(m); d != "" {
			res.Fail("copy-changed-original", "Copy() changed the original: %s; original was %v", d, spec)
		}
		if res.Failed() {
			break
		}
		// edits on the copy must never show on the original
		trackC := spec.clone().Meta
		var trace []string
		nEd := e.R.Range(1, 4)
		for j := 0; j < nEd; j++ {
			var what string
			if p := guard(func() { what = editMeta(e.R, c.Metadata, trackC) }); p != "" {
				res.Fail("panic", "editing the copy's metadata panicked (%s); original %v", p, spec)
				return
			}
			trace = append(trace, "copy:"+what)
			edits++
			res.Events += 2
			if d := spec.matches(m); d != "" {
				res.Fail("copy-aliases-metadata", "after %v on the COPY the ORIGINAL changed: %s; original was %v", trace, d, spec)
				break
			}
			cs := spec.clone()
			cs.Meta = trackC
			if d := cs.matches(c); d != "" {
				res.Fail("copy-aliases-metadata", "after %v the copy does not hold its own edits: %s", trace, d)
				break
			}
		}
		if res.Failed() {
			break
		}
		// edits on the original must never show on a copy taken before
		if m.Metadata != nil {
			c2 := m.Copy()
			trackM := spec.clone().Meta
			for j := 0; j < nEd; j++ {
				what := editMeta(e.R, m.Metadata, trackM)
				trace = append(trace, "orig:"+what)
				edits++
				res.Events += 2
				if d := spec.matches(c2); d != "" {
					res.Fail("copy-aliases-metadata", "after %v on the ORIGINAL a COPY taken before changed: %s; original was %v", trace, d, spec)
					break
				}
			}
			if res.Failed() {
				break
			}
			// a copy taken now carries the edited set, and a copy of a copy is again equal
			es := spec.clone()
			es.Meta = trackM
			c3 := m.Copy()
			c4 := c3.Copy()
			res.Events += 3
			if d := es.matches(c3); d != "" {
				res.Fail("copy-not-equal", "copy of the edited original differs: %s; edits %v; original was %v", d, trace, spec)
			} else if d := es.matches(c4); d != "" {
				res.Fail("copy-not-equal", "copy of a copy differs: %s; edits %v; original was %v", d, trace, spec)
			} else if !c4.Equals(m) || !m.Equals(c3) {
				res.Fail("copy-not-equal", "Equals is false between the edited original and its copies; edits %v; original was %v", trace, spec)
			}
			if res.Failed() {
				break
			}
		}
		if len(samples) < 2 && len(spec.Meta) > 1 {
			samples = append(samples, map[string]any{"message": spec, "edits": trace})
		}
	}
	res.Count("inputs", nMsgs)
	res.Count("metadata_edits", edits)
	res.Count("copies_with_metadata", withMeta)
	res.Count("corpus_sweep_strings", sw.used)
	f.report(res)
	res.NonTrivial = res.Failed() || (edits > 0 && withMeta > 0 && f.unusual())
	res.Sig = vlib.Sig("copy", sigParts)
	if !res.Failed() {
		res.Sample = map[string]any{"messages": nMsgs, "metadata_edits": edits, "examples": samples}
	}
}
