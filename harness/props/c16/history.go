package c16

import (
	"fmt"
	"math"
	"reflect"
	"sort"
	"strings"
	"sync"

	"github.com/ThreeDotsLabs/watermill/components/cqrs"
	"github.com/ThreeDotsLabs/watermill/message"
	gogotypes "github.com/gogo/protobuf/types"
	"google.golang.org/protobuf/encoding/protowire"
	"google.golang.org/protobuf/proto"
	"google.golang.org/protobuf/reflect/protoreflect"
	"google.golang.org/protobuf/types/known/wrapperspb"

	"verifharness/props/c16/c16pb"
	"verifharness/vlib"
)

// ---------------------------------------------------------------------------------------------------------
// ROUND TRIPS ARE INDEPENDENT OF WHAT THE MARSHALER SAW BEFORE.
//
// "Unmarshal after Marshal is the identity" is stated for all values of the family, without a condition on the calls that were made
// earlier. A consumer decodes whatever arrives on its topic: malformed, truncated and foreign payloads, messages of other types; a
// producer may hand Marshal a value the codec refuses. All of that ends in an error for THAT call - and must leave the next
// well-formed round trip alone, for the same marshaler value and for every other marshaler value of the process (a marshaler that
// memoises per type, pools buffers or remembers "the path that worked last time" has process-level state).
//
// For about 3 of 4 values of a codec batch the program therefore is
//
//     1. baseline: Marshal(v), name, Unmarshal into a fresh target, compare      (judged under the ordinary clauses)
//     2. 1-3 OTHER OPERATIONS aimed at v's Go type, each through the same marshaler value, the marshaler value that is kept for the
//        whole case, or another marshaler value (other configuration; for the deprecated gogo marshaler also DisableStdProtoFallback
//        and its ToProtoMarshaler()):
//          - Unmarshal of a bad payload into a fresh target of v's type: declared length beyond the end, truncated varint / tag /
//            fixed64, field number 0, end-group without start, unterminated group, over-long varint, a declared field with another
//            wire type, invalid UTF-8 in field 1, random bytes, JSON texts (object, truncated, wrong types, null, array), empty / nil
//            payload, a text, the encoding of the previous value of the batch (foreign type); once v was marshaled also its own payload
//            truncated, with garbage appended, with one byte changed;
//          - Unmarshal of v's own (copied) payload or of a bad payload into a target the marshaler refuses or cannot fill: nil,
//            non-pointer, typed nil pointer, a target of another type or family (JSON struct, gogo type, gogo-only type, std message,
//            proto2 message with required fields, *chan);
//          - Marshal of a value the marshaler refuses: a value of v's OWN Go type that does not encode (std proto: invalid UTF-8 in a
//            string field, required field unset; gogo-only types: invalid UTF-8, required unset; JSON: NaN / Inf / chan / func inside
//            the value), a typed nil pointer, a non-pointer, foreign values (chan, func, NaN, struct with a chan, a JSON struct for the
//            Protobuf marshalers, a gogo-only message for ProtoMarshaler).
//        NOTHING is demanded of these calls: error, success and panic are only counted (`other_ops_*`).
//     3. the ordinary checked program for v (Marshal, name, Unmarshal into fresh / reused / pre-populated targets, held message),
//        in 1 of 2 with further operations of kind 2 between Marshal and the first Unmarshal.
//
// A check of step 3 that step 1 made too (Marshal, name, Unmarshal into a fresh target, identity) and that fails although step 1 held
// for the same marshaler value and the same value is reported as clause `cqrs-roundtrip-after-failed-op` (at least one operation of
// step 2 failed) resp. `cqrs-roundtrip-not-repeatable` (none failed). Non-fresh targets keep their own clauses (targets.go).
// Because a child process runs many cases one after another, state poisoned in an earlier case shows in step 1 already: that is
// reported under the ordinary clause, with the number of failed operations the harness has made on that Go type in this process.

type codecFamily int

const (
	famJSON codecFamily = iota
	famProto
	famGogo
)

// procFailedOps: failed operations per target/value Go type in this process, over all cases (attribution text only).
var procFailedOps = struct {
	sync.Mutex
	n map[reflect.Type]int
}{n: map[reflect.Type]int{}}

func procFailed(t reflect.Type) int {
	procFailedOps.Lock()
	defer procFailedOps.Unlock()
	return procFailedOps.n[t]
}

type hostility struct {
	e      *vlib.Env
	r      *vlib.Rand
	fam    codecFamily
	mk     mkMarshaler
	shared cqrs.CommandEventMarshaler
	serial int

	prevPayload []byte // encoding of the previous value of the batch
	prevType    reflect.Type

	values, baselines                              int
	unmarshalCalls, unmarshalFailed                int
	marshalCalls, marshalFailed, panics            int
	viaSame, viaShared, viaOther                   int
	afterFailedOnType, mids                        int
	rejectedTargets, nSameTypeRej, sameTypeRejFail int
	kinds                                          map[string]int
	failedByType                                   map[reflect.Type]int
	trace                                          []string
}

// valueHistory: what happened around one value of the batch.
type valueHistory struct {
	baselineOK  bool
	ops, failed int
	log         []string
}

func newHostility(e *vlib.Env, kind string, mk mkMarshaler) *hostility {
	h := &hostility{e: e, r: e.R.Fork(), mk: mk, kinds: map[string]int{}, failedByType: map[reflect.Type]int{}}
	switch {
	case strings.Contains(kind, "JSON"):
		h.fam = famJSON
	case strings.Contains(kind, "gogo"):
		h.fam = famGogo
	default:
		h.fam = famProto
	}
	h.shared = mk(nil, nil, false)
	return h
}

// plan: does this value get other operations before (pre) and between (mid) its checked calls?
func (h *hostility) plan(v val) (pre, mid bool) {
	if v.large {
		return false, false
	}
	switch h.r.Intn(8) {
	case 0, 1:
		return false, false
	case 2, 3, 4:
		return true, false
	case 5:
		return false, true
	default:
		return true, true
	}
}

func (h *hostility) pickMarshaler(m cqrs.CommandEventMarshaler) (cqrs.CommandEventMarshaler, string) {
	switch h.r.Intn(5) {
	case 0, 1:
		h.viaSame++
		return m, "the same marshaler value"
	case 2:
		h.viaShared++
		return h.shared, "the marshaler value kept for the whole case"
	}
	h.viaOther++
	if pm, ok := m.(cqrs.ProtobufMarshaler); ok {
		switch h.r.Intn(4) {
		case 0:
			pm.DisableStdProtoFallback = true
			return pm, "a copy of the marshaler value with DisableStdProtoFallback"
		case 1:
			return pm.ToProtoMarshaler(), "the marshaler's ToProtoMarshaler()"
		case 2:
			return cqrs.ProtobufMarshaler{DisableStdProtoFallback: true}, "another marshaler value (defaults, DisableStdProtoFallback)"
		}
	}
	id := h.e.ID() + "-other"
	if h.r.Bool() {
		return h.mk(func() string { return id }, cqrs.StructName, true), "another marshaler value (own NewUUID, StructName)"
	}
	return h.mk(nil, nil, false), "another marshaler value (defaults)"
}

func tagged(num protowire.Number, typ protowire.Type, rest ...byte) []byte {
	return append(protowire.AppendTag(nil, num, typ), rest...)
}

// badPayload: a payload that (for most types) does not decode into v's type. good: v's own encoding, when it is known already.
func (h *hostility) badPayload(v val, good []byte) ([]byte, string) {
	r := h.r
	binary := func() ([]byte, string) {
		switch r.Intn(12) {
		case 0, 1:
			return []byte{0x0a, 0x7f}, "declared length beyond the end"
		case 2:
			return []byte{0x08, 0x80}, "truncated varint"
		case 3:
			return []byte{0x80}, "truncated tag"
		case 4:
			return []byte{0x00, 0x01}, "field number 0"
		case 5:
			return []byte{0x0c}, "end-group without start"
		case 6:
			return []byte{0x0b, 0x08, 0x01}, "unterminated group"
		case 7:
			return append(append([]byte{0x08}, []byte(strings.Repeat("\xff", 10))...), 0x01), "over-long varint"
		case 8:
			n := protowire.Number(r.Range(1, 10))
			switch r.Intn(4) {
			case 0:
				return tagged(n, protowire.Fixed32Type, 1, 2, 3, 4), fmt.Sprintf("field %d as fixed32", n)
			case 1:
				return tagged(n, protowire.Fixed64Type, 1, 2, 3, 4, 5, 6, 7, 8), fmt.Sprintf("field %d as fixed64", n)
			case 2:
				return tagged(n, protowire.VarintType, 0x96, 0x01), fmt.Sprintf("field %d as varint", n)
			default:
				return tagged(n, protowire.BytesType, 3, 'a', 'b', 'c'), fmt.Sprintf("field %d as 3 bytes", n)
			}
		case 9:
			return []byte{0x09, 1, 2, 3}, "truncated fixed64"
		case 10:
			return tagged(1, protowire.BytesType, 2, 0xff, 0xfe), "invalid UTF-8 in field 1"
		default:
			return r.Bytes(r.Range(1, 48)), "random bytes"
		}
	}
	text := func() ([]byte, string) {
		switch r.Intn(9) {
		case 0:
			return []byte(`{"id":"x","n":1,"s":"y"}`), "JSON object"
		case 1:
			return []byte(`{"s":"abc`), "truncated JSON"
		case 2:
			return []byte(`{"s":5,"i":"x","f":"nan","items":7,"attrs":[1],"id":{},"data":3,"at":"never","text":[],"list":{},"Target":1}`), "JSON with wrong types"
		case 3:
			return []byte(`null`), "JSON null"
		case 4:
			return []byte(`[1,2`), "truncated JSON array"
		case 5:
			return []byte{}, "empty payload"
		case 6:
			return nil, "nil payload"
		case 7:
			return []byte(`{"a":1}{"b":2}`), "two JSON documents"
		default:
			return []byte(genStr(r)), "a text"
		}
	}
	own := func() ([]byte, string) {
		if len(good) == 0 {
			if h.prevPayload != nil {
				return append([]byte(nil), h.prevPayload...), fmt.Sprintf("the encoding of the previous value of the batch (%v)", h.prevType)
			}
			return binary()
		}
		switch r.Intn(4) {
		case 0:
			return append([]byte(nil), good[:r.Intn(len(good))]...), "the value's own payload, truncated"
		case 1:
			return append(append([]byte(nil), good...), 0x0a, 0x7f), "the value's own payload with garbage appended"
		case 2:
			b := append([]byte(nil), good...)
			b[r.Intn(len(b))] ^= byte(1 << r.Intn(8))
			return b, "the value's own payload with one bit changed"
		default:
			if h.prevPayload != nil {
				return append([]byte(nil), h.prevPayload...), fmt.Sprintf("the encoding of the previous value of the batch (%v)", h.prevType)
			}
			return append([]byte(nil), good[:len(good)/2]...), "the value's own payload, first half"
		}
	}
	k := r.Intn(10)
	if h.fam == famJSON {
		switch {
		case k < 5:
			return text()
		case k < 7:
			return binary()
		}
		return own()
	}
	switch {
	case k < 6:
		return binary()
	case k < 7:
		return text()
	}
	return own()
}

// foreignTarget: a target of another type / family than the marshaler or the payload is made for.
func (h *hostility) foreignTarget() (any, string) {
	switch h.r.Intn(8) {
	case 0:
		return &EvScalar{}, "a JSON struct (*EvScalar)"
	case 1:
		return &gogotypes.StringValue{}, "a gogo type (*types.StringValue)"
	case 2:
		return &wrapperspb.StringValue{}, "a std message (*wrapperspb.StringValue)"
	case 3:
		return &OldGenEvent{}, "a gogo-only type (*OldGenEvent)"
	case 4:
		return &OldGenCommand{}, "a gogo-only proto2 type with a required field (*OldGenCommand)"
	case 5:
		return &c16pb.Legacy{}, "a proto2 std message with a required field (*c16pb.Legacy)"
	case 6:
		return new(chan int), "*chan int"
	default:
		return &OldGenRaw{}, "a gogo-only type with a strict hand-written decoder (*OldGenRaw)"
	}
}

// rejectedTarget: a target derived from v's type that no Unmarshal can fill.
func (h *hostility) rejectedTarget(v val) (any, string) {
	switch h.r.Intn(4) {
	case 0:
		return nil, "nil"
	case 1:
		return reflect.ValueOf(v.fresh()).Elem().Interface(), "a non-pointer value of the type"
	case 2:
		return reflect.Zero(reflect.TypeOf(v.v)).Interface(), "a typed nil pointer of the type"
	default:
		return h.foreignTarget()
	}
}

// injectInvalidUTF8 sets the first string field it finds (singular, or appends to a list) to invalid UTF-8; false when m has none.
func injectInvalidUTF8(m protoreflect.Message) bool {
	fds := m.Descriptor().Fields()
	for i := 0; i < fds.Len(); i++ {
		fd := fds.Get(i)
		if fd.Kind() != protoreflect.StringKind || fd.IsMap() {
			continue
		}
		if fd.IsList() {
			m.Mutable(fd).List().Append(protoreflect.ValueOfString("\xff\xfe"))
		} else {
			m.Set(fd, protoreflect.ValueOfString("\xff\xfe"))
		}
		return true
	}
	return false
}

// sameTypeRejected: a value of v's own Go type that the codec refuses to encode; nil when the harness knows none for the type.
func (h *hostility) sameTypeRejected(v val) any {
	if v.gogoOnly {
		return gogoOnlyRejected(v.v)
	}
	if pm, ok := v.v.(proto.Message); ok {
		n := pm.ProtoReflect().New()
		if n.Descriptor().RequiredNumbers().Len() > 0 && h.r.Bool() {
			return n.Interface() // required fields unset
		}
		if injectInvalidUTF8(n) {
			return n.Interface()
		}
		if n.Descriptor().RequiredNumbers().Len() > 0 {
			return n.Interface()
		}
		return nil
	}
	switch v.v.(type) {
	case *EvScalar:
		return &EvScalar{S: "nan", F: math.NaN()}
	case *EvNested:
		return &EvNested{ID: "inf", Items: []EvItem{{Name: "x", Price: math.Inf(1)}}}
	case *EvLoose:
		return &EvLoose{ID: "chan", Value: make(chan int), Attrs: map[string]any{"f": func() {}}}
	case *map[string]any:
		return &map[string]any{"c": make(chan int)}
	case *[]any:
		return &[]any{1.5, func() {}}
	case *any:
		var a any = math.Inf(-1)
		return &a
	}
	return nil
}

// rejectedValue: a value Marshal is expected to refuse.
func (h *hostility) rejectedValue(v val) (any, string) {
	r := h.r
	k := r.Intn(10)
	if k < 5 {
		if bad := h.sameTypeRejected(v); bad != nil {
			h.nSameTypeRej++
			return bad, "a value of the same Go type that the codec does not encode"
		}
	}
	switch k {
	case 5:
		return reflect.Zero(reflect.TypeOf(v.v)).Interface(), "a typed nil pointer of the type"
	case 6:
		if h.fam != famJSON {
			return reflect.ValueOf(v.fresh()).Elem().Interface(), "a non-pointer value of the type"
		}
	case 7:
		if h.fam != famJSON {
			return &EvScalar{S: "json"}, "a JSON struct (*EvScalar)"
		}
		return &EvScalar{F: math.Inf(1)}, "a struct holding +Inf"
	case 8:
		if h.fam == famProto {
			return &OldGenEvent{Id: "gogo-only"}, "a gogo-only message"
		}
	}
	switch r.Intn(5) {
	case 0:
		return make(chan int), "a chan"
	case 1:
		return func() {}, "a func"
	case 2:
		return math.NaN(), "NaN"
	case 3:
		return &struct{ C chan int }{make(chan int)}, "a struct with a chan"
	default:
		return map[string]any{"f": func() {}}, "a map holding a func"
	}
}

func (h *hostility) note(hv *valueHistory, kind, text string, t reflect.Type, err error, panicked string) {
	hv.ops++
	h.kinds[kind]++
	h.trace = append(h.trace, kind)
	out := "ok"
	if err != nil || panicked != "" {
		hv.failed++
		if t != nil {
			h.failedByType[t]++
			procFailedOps.Lock()
			procFailedOps.n[t]++
			procFailedOps.Unlock()
		}
		if panicked != "" {
			h.panics++
			out = "panic: " + clip(firstLine(panicked), 120)
		} else {
			out = "error: " + clip(firstLine(err.Error()), 120)
		}
	}
	hv.log = append(hv.log, text+" -> "+out)
}

func firstLine(s string) string {
	if i := strings.IndexByte(s, '\n'); i >= 0 {
		return s[:i]
	}
	return s
}

// ops runs 1-3 other operations aimed at v's type. good is the message Marshal returned for v (nil before the checked Marshal).
// Nothing is demanded of these calls. Neither v, nor good, nor a target that is judged later is handed to them.
func (h *hostility) ops(m cqrs.CommandEventMarshaler, v val, good *message.Message, hv *valueHistory) {
	var goodPayload []byte
	name := ""
	if good != nil {
		goodPayload = good.Payload
		name = good.Metadata.Get("name")
	}
	newMsg := func(payload []byte) *message.Message {
		h.serial++
		msg := message.NewMessage(fmt.Sprintf("%s-other-%d", h.e.ID(), h.serial), payload)
		if name != "" {
			msg.Metadata.Set("name", name)
		}
		return msg
	}
	vt := reflect.TypeOf(v.v)
	for n := 1 + h.r.Intn(3); n > 0; n-- {
		via, viaDesc := h.pickMarshaler(m)
		switch k := h.r.Intn(10); {
		case k < 6:
			payload, what := h.badPayload(v, goodPayload)
			target := v.fresh()
			var err error
			p := guard(func() { err = via.Unmarshal(newMsg(payload), target) })
			h.unmarshalCalls++
			if err != nil || p != "" {
				h.unmarshalFailed++
			}
			h.note(hv, "unmarshal:"+kindOf(what), fmt.Sprintf("Unmarshal(%s [%s], fresh %T) through %s", what, showBytes(payload), target, viaDesc), vt, err, p)
		case k < 8:
			target, twhat := h.rejectedTarget(v)
			payload, pwhat := append([]byte(nil), goodPayload...), "a copy of the value's own payload"
			if good == nil || h.r.Chance(0.3) {
				payload, pwhat = h.badPayload(v, goodPayload)
			}
			var err error
			p := guard(func() { err = via.Unmarshal(newMsg(payload), target) })
			h.unmarshalCalls++
			h.rejectedTargets++
			if err != nil || p != "" {
				h.unmarshalFailed++
			}
			tt := reflect.TypeOf(target)
			if tt == nil || (tt.Kind() != reflect.Pointer && reflect.PointerTo(tt) == vt) {
				tt = vt
			}
			h.note(hv, "unmarshal-target:"+kindOf(twhat), fmt.Sprintf("Unmarshal(%s, target %s) through %s", pwhat, twhat, viaDesc), tt, err, p)
		default:
			bad, what := h.rejectedValue(v)
			var err error
			var out *message.Message
			p := guard(func() { out, err = via.Marshal(bad) })
			_ = out
			h.marshalCalls++
			if err != nil || p != "" {
				h.marshalFailed++
				if strings.HasPrefix(what, "a value of the same Go type") {
					h.sameTypeRejFail++
				}
			}
			bt := reflect.TypeOf(bad)
			if bt == nil || (bt.Kind() != reflect.Pointer && reflect.PointerTo(bt) == vt) {
				bt = vt
			}
			h.note(hv, "marshal:"+kindOf(what), fmt.Sprintf("Marshal(%s) through %s", what, viaDesc), bt, err, p)
		}
	}
}

// kindOf shortens a description to a stable counter key.
func kindOf(what string) string {
	if i := strings.IndexAny(what, "(["); i > 0 {
		what = what[:i]
	}
	what = strings.TrimSpace(what)
	if strings.HasPrefix(what, "field ") { // "field 7 as fixed32"
		if j := strings.Index(what, " as "); j > 0 {
			what = "declared field number as " + what[j+4:]
		}
	}
	return strings.ReplaceAll(what, " ", "_")
}

// remember keeps the encoding of the value just marshaled: the next value's "foreign" payload.
func (h *hostility) remember(v val, msg *message.Message) {
	if len(msg.Payload) <= 4096 {
		h.prevPayload, h.prevType = append([]byte(nil), msg.Payload...), reflect.TypeOf(v.v)
	}
}

// attribute rewrites a failed check of a value whose baseline round trip held.
func (hv *valueHistory) attribute(clause, text string) (string, string) {
	if !hv.baselineOK || hv.ops == 0 {
		return clause, text
	}
	c := "cqrs-roundtrip-not-repeatable"
	if hv.failed > 0 {
		c = "cqrs-roundtrip-after-failed-op"
	}
	return c, fmt.Sprintf("the same round trip (same marshaler value, same value) held at the start of this step; then %d other operations were made (%d failed): %s; after them [%s] %s",
		hv.ops, hv.failed, strings.Join(hv.log, " | "), clause, text)
}

func (h *hostility) report(res *vlib.Result) {
	res.Count("values_with_other_ops_around_their_round_trip", h.values)
	res.Count("values_with_other_ops_between_marshal_and_unmarshal", h.mids)
	res.Count("baseline_round_trips_before_other_ops", h.baselines)
	res.Count("values_checked_after_failed_op_on_their_go_type", h.afterFailedOnType)
	res.Count("other_ops_unmarshal_calls", h.unmarshalCalls)
	res.Count("other_ops_unmarshal_calls_failed", h.unmarshalFailed)
	res.Count("other_ops_unmarshal_into_rejected_or_foreign_target", h.rejectedTargets)
	res.Count("other_ops_marshal_calls", h.marshalCalls)
	res.Count("other_ops_marshal_calls_failed", h.marshalFailed)
	res.Count("other_ops_marshal_same_go_type_rejected_value", h.nSameTypeRej)
	res.Count("other_ops_marshal_same_go_type_rejected_value_failed", h.sameTypeRejFail)
	res.Count("other_ops_panicked", h.panics)
	res.Count("other_ops_through_same_marshaler_value", h.viaSame)
	res.Count("other_ops_through_marshaler_value_kept_for_the_case", h.viaShared)
	res.Count("other_ops_through_another_marshaler_value", h.viaOther)
	res.Count("go_types_with_failed_ops", len(h.failedByType))
	ks := make([]string, 0, len(h.kinds))
	for k := range h.kinds {
		ks = append(ks, k)
	}
	sort.Strings(ks)
	for _, k := range ks {
		res.Count("other_op:"+k, h.kinds[k])
	}
}
