package c16

import (
	"errors"
	"fmt"
	"reflect"

	"github.com/ThreeDotsLabs/watermill/components/requestreply"
	"github.com/ThreeDotsLabs/watermill/message"

	"verifharness/vlib"
)

// handlerError is a non-stdlib error type: only its text can survive the wire.
type handlerError struct{ text string }

func (h handlerError) Error() string { return h.text }

type replyStats struct {
	f                        feat
	withErr, emptyErr, noErr int
	nonZero, viaCopy         int
	untypedNumbers           int
	percentErr               int
	sweepErr                 *string
	sig                      []any
	samples                  []any
	// later re-checks of replies that were decoded earlier in the batch (see replyOne)
	later     []func() (clause, reason string)
	decodedX2 int
}

// replyOne runs one MarshalReply -> (Copy) -> UnmarshalReply round trip for a result of type R.
// When st.sweepErr is set, it is taken (once) as the handler error's text.
func replyOne[R any](e *vlib.Env, res *vlib.Result, st *replyStats, result R, strs ...string) {
	r := e.R
	var zero R
	desc := clip(fmt.Sprintf("%T(%+v)", result, result), 600)
	if rv := reflect.ValueOf(result); rv.Kind() == reflect.Ptr && !rv.IsNil() {
		desc = clip(fmt.Sprintf("%T(&%+v)", result, rv.Elem().Interface()), 600)
	}
	if !reflect.DeepEqual(result, zero) {
		st.nonZero++
	}
	for _, s := range strs {
		st.f.addStr(s)
	}
	var handleErr error
	errDesc := "nil"
	kind := r.Intn(6)
	if st.sweepErr != nil {
		kind = 6 + r.Intn(3)
	}
	switch kind {
	case 6:
		handleErr = errors.New(*st.sweepErr)
	case 7:
		handleErr = handlerError{*st.sweepErr}
	case 8:
		handleErr = fmt.Errorf("%w", errors.New(*st.sweepErr))
	case 0, 1:
		st.noErr++
	case 2:
		handleErr = errors.New("")
		st.emptyErr++
	case 3:
		handleErr = handlerError{genStr(r)}
	case 4:
		handleErr = fmt.Errorf("wrapped %s: %w", genStr(r), errors.New(genStr(r)))
	default:
		handleErr = errors.New(genStr(r))
	}
	st.sweepErr = nil
	if handleErr != nil {
		st.withErr++
		st.f.addStr(handleErr.Error())
		if hasPrintfVerb(handleErr.Error()) {
			st.percentErr++
		}
		errDesc = fmt.Sprintf("%T(%s)", handleErr, showStr(handleErr.Error()))
	}
	st.sig = append(st.sig, desc, errDesc)
	m := requestreply.BackendPubsubJSONMarshaler[R]{}
	cmd := message.NewMessage(e.ID()+"-cmd", []byte("{}"))
	fail := func(clause, format string, args ...any) {
		res.Fail(clause, "result %s, handler error %s: %s", desc, errDesc, fmt.Sprintf(format, args...))
		res.Witness = map[string]any{"result": desc, "handler_error": errDesc}
	}
	var msg *message.Message
	var err error
	if p := guard(func() {
		msg, err = m.MarshalReply(requestreply.BackendOnCommandProcessedParams[R]{Command: &EvEmpty{}, CommandMessage: cmd, HandlerResult: result, HandleErr: handleErr})
	}); p != "" {
		fail("panic", "MarshalReply panicked: %s", p)
		return
	}
	res.Events++
	if err != nil || msg == nil {
		fail("reply-marshal-error", "MarshalReply returned (%v, %v)", msg, err)
		return
	}
	wire := msg
	if r.Bool() {
		wire = msg.Copy()
		st.viaCopy++
	}
	var reply requestreply.Reply[R]
	if p := guard(func() { reply, err = m.UnmarshalReply(wire) }); p != "" {
		fail("panic", "UnmarshalReply panicked: %s (payload %s metadata %s)", p, showBytes(msg.Payload), showMeta(msg.Metadata))
		return
	}
	res.Events++
	if err != nil {
		fail("reply-unmarshal-error", "UnmarshalReply(MarshalReply(..)) failed: %v (payload %s metadata %s)", err, showBytes(msg.Payload), showMeta(msg.Metadata))
		return
	}
	res.Events += 2
	if !reflect.DeepEqual(reply.HandlerResult, result) {
		fail("reply-result", "%s; result came back as %s (payload %s)", firstDiff(reflect.ValueOf(&result), reflect.ValueOf(&reply.HandlerResult), "result"), clip(fmt.Sprintf("%+v", reply.HandlerResult), 600), showBytes(msg.Payload))
		return
	}
	switch {
	case handleErr == nil && reply.Error != nil:
		fail("reply-error", "no handler error was marshaled but the reply carries error %s (metadata %s)", showStr(reply.Error.Error()), showMeta(msg.Metadata))
	case handleErr != nil && reply.Error == nil:
		fail("reply-error", "the handler error was lost: reply.Error is nil (metadata %s)", showMeta(msg.Metadata))
	case handleErr != nil && reply.Error.Error() != handleErr.Error():
		fail("reply-error", "error text came back as %s (metadata %s)", showStr(reply.Error.Error()), showMeta(msg.Metadata))
	}
	if res.Failed() {
		return
	}
	// UnmarshalReply has no caller-supplied target: the non-fresh-target question shows here as "is the Reply handed out by one
	// call still the marshaled one after the marshaler decoded other replies" (a decoder that keeps and reuses its target
	// between calls would change or alias it) and "does decoding the same reply message a second time give the same Reply".
	if r.Chance(0.5) {
		st.decodedX2++
		var second requestreply.Reply[R]
		if p := guard(func() { second, err = m.UnmarshalReply(wire) }); p != "" {
			fail("panic", "second UnmarshalReply of the same message panicked: %s", p)
			return
		}
		res.Events++
		if err != nil || !reflect.DeepEqual(second.HandlerResult, result) || (second.Error == nil) != (handleErr == nil) || (handleErr != nil && second.Error.Error() != handleErr.Error()) {
			fail("reply-decode-twice", "decoding the same reply message a second time gave result %s, error %v, err %v", clip(fmt.Sprintf("%+v", second.HandlerResult), 600), second.Error, err)
			return
		}
	}
	st.later = append(st.later, func() (string, string) {
		if !reflect.DeepEqual(reply.HandlerResult, result) {
			return "reply-result-changed-later", fmt.Sprintf("result %s, handler error %s: the Reply returned by UnmarshalReply changed after later UnmarshalReply calls: %s; now %s",
				desc, errDesc, firstDiff(reflect.ValueOf(&result), reflect.ValueOf(&reply.HandlerResult), "result"), clip(fmt.Sprintf("%+v", reply.HandlerResult), 600))
		}
		if handleErr != nil && (reply.Error == nil || reply.Error.Error() != handleErr.Error()) {
			return "reply-result-changed-later", fmt.Sprintf("result %s, handler error %s: the error of the Reply returned by UnmarshalReply changed after later calls: now %v", desc, errDesc, reply.Error)
		}
		return "", ""
	})
	if len(st.samples) < 3 && handleErr != nil && !reflect.DeepEqual(result, zero) {
		st.samples = append(st.samples, map[string]any{"result": clip(desc, 200), "handler_error": errDesc, "payload_bytes": len(msg.Payload)})
	}
}

func runReply(e *vlib.Env, res *vlib.Result) {
	const nReplies = 64
	st := &replyStats{}
	r := e.R
	// sweep slots: 0..15 error text of every 4th reply, 16..23 a string result (of every 8th reply)
	sw := newSweeper(e, nReplies/4+nReplies/8)
	for i := 0; i < nReplies && !res.Failed(); i++ {
		if i%4 == 0 {
			t := sw.at(i / 4)
			st.sweepErr = &t
		}
		if i%8 == 4 {
			t := sw.at(nReplies/4 + i/8)
			if r.Bool() {
				replyOne(e, res, st, t, t)
			} else {
				replyOne[any](e, res, st, map[string]any{t: []any{t}}, t)
			}
			continue
		}
		switch r.Intn(16) {
		case 11:
			// results with untyped slots: the reply marshaler decodes into Result with encoding/json, so numbers in
			// interface{} slots must come back as float64 (values are fixed points of encoding/json, see untyped.go)
			var strs []string
			var us untypedStats
			l := genLoose(r, 1, &strs, &us)
			selfCheckJSON(l, func() any { return new(EvLoose) })
			st.untypedNumbers += us.numbers
			if r.Bool() {
				replyOne(e, res, st, *l, strs...)
			} else {
				replyOne(e, res, st, l, strs...)
			}
		case 12:
			var strs []string
			var us untypedStats
			var a any = genNumTree(r, 2, &strs)
			us.walk(a, 0)
			selfCheckJSON(&a, func() any { return new(any) })
			st.untypedNumbers += us.numbers
			replyOne[any](e, res, st, a, strs...)
		case 13:
			var strs []string
			var us untypedStats
			var m map[string]any
			if r.Chance(0.9) {
				m = genTreeMap(r, 2, &strs)
				k := genStr(r)
				strs = append(strs, k)
				m[k] = genNumTree(r, 1, &strs)
				us.walk(m, 0)
			}
			selfCheckJSON(&m, func() any { return new(map[string]any) })
			st.untypedNumbers += us.numbers
			replyOne(e, res, st, m, strs...)
		case 14:
			var strs []string
			var us untypedStats
			var l []any
			if r.Chance(0.9) {
				l = []any{}
				for j := r.Intn(5); j > 0; j-- {
					l = append(l, genNumTree(r, 1, &strs))
				}
				us.walk(l, 0)
			}
			selfCheckJSON(&l, func() any { return new([]any) })
			st.untypedNumbers += us.numbers
			replyOne(e, res, st, l, strs...)
		case 15:
			var strs []string
			var us untypedStats
			s := genShapes(r, &strs, &us)
			selfCheckJSON(s, func() any { return new(EvShapes) })
			st.untypedNumbers += us.numbers
			replyOne(e, res, st, *s, strs...)
		case 0:
			s := genStr(r)
			replyOne(e, res, st, s, s)
		case 1:
			replyOne(e, res, st, genInt64(r))
		case 2:
			replyOne(e, res, st, genFloat(r))
		case 3:
			s := genScalar(r)
			replyOne(e, res, st, s, s.S)
		case 4:
			if r.Chance(0.3) {
				replyOne[*EvScalar](e, res, st, nil)
			} else {
				s := genScalar(r)
				replyOne(e, res, st, &s, s.S)
			}
		case 5:
			for {
				v := genTypedJSONVal(r)
				if n, ok := v.v.(*EvNested); ok {
					replyOne(e, res, st, *n, v.strs...)
					break
				}
			}
		case 6:
			replyOne(e, res, st, requestreply.NoResult{})
		case 7:
			var m map[string]string
			if r.Chance(0.8) {
				m = genMeta(r)
			}
			var strs []string
			for k, v := range m {
				strs = append(strs, k, v)
			}
			replyOne(e, res, st, m, strs...)
		case 8:
			var l []string
			for j := r.Intn(4); j > 0; j-- {
				l = append(l, genStr(r))
			}
			replyOne(e, res, st, l, l...)
		case 9:
			replyOne(e, res, st, r.Payload(64))
		default:
			replyOne(e, res, st, r.Bool())
		}
	}
	if !res.Failed() {
		for _, f := range st.later {
			res.Events++
			if clause, reason := f(); clause != "" {
				res.Fail(clause, "%s", reason)
				break
			}
		}
		res.Count("replies_rechecked_after_all_unmarshals", len(st.later))
	}
	res.Count("replies_decoded_twice", st.decodedX2)
	res.Count("inputs", nReplies)
	res.Count("replies_with_error", st.withErr)
	res.Count("replies_with_empty_error_text", st.emptyErr)
	res.Count("replies_without_error", st.noErr)
	res.Count("unmarshal_from_copy", st.viaCopy)
	res.Count("error_texts_with_percent", st.percentErr)
	res.Count("corpus_sweep_strings", sw.used)
	res.Count("untyped_slot_numbers", st.untypedNumbers)
	st.f.report(res)
	res.NonTrivial = res.Failed() || (st.withErr > 0 && st.noErr > 0 && st.nonZero > 0 && st.f.multibyte && st.f.control)
	res.Sig = vlib.Sig("reply", st.sig)
	if !res.Failed() {
		res.Sample = map[string]any{"replies": nReplies, "with_error": st.withErr, "with_empty_error_text": st.emptyErr, "examples": st.samples}
	}
}
