// Package c16 checks property C16 — value semantics: Copy/Equals laws and codec round-trips are identities.
//
// Every case is a batch of generated inputs of one workload class, run through the REAL watermill code
// (message.Message, cqrs marshalers, forwarder.Publisher + Forwarder on a real Router, request-reply
// marshaler) and judged against harness-owned reference data (the specs the inputs were built from).
package c16

import (
	"fmt"
	"sort"
	"unicode/utf8"

	"github.com/ThreeDotsLabs/watermill/message"

	"verifharness/vlib"
)

// classes of cases; case idx runs class c16Classes[idx % len].
var c16Classes = []string{"message/equals", "message/copy", "cqrs/json", "cqrs/proto", "cqrs/gogo", "forwarder", "reply", "forwarder/pubsub", "cqrs/proto-schema", "cqrs/gogo-schema"}

func init() {
	vlib.Register(&vlib.Prop{
		ID:    "C16",
		Level: "exploration",
		Cases: func(tier string) int { return vlib.TierN(tier, 640, 100000) },
		Rule: "case idx runs class idx%10 of {message/equals, message/copy, cqrs/json, cqrs/proto, cqrs/gogo, forwarder, reply, forwarder/pubsub, cqrs/proto-schema, cqrs/gogo-schema} on a batch of generated inputs " +
			"(counter `inputs`; 7 hand-written small pairs + 48 messages x 14 pair mutations for equals, 64 messages for copy, 64 values + a fixed 16-step size ladder (encodings of 0..9000 bytes growing and shrinking through 4 KiB, marshaled back to back, all messages held) per marshaler case, " +
			"24 random + 8 edge-grid messages through forwarder.Publisher -> captured envelope -> one real Forwarder (scripted ends), 12 random + 8 edge-grid messages through forwarder.Publisher -> GoChannel -> Forwarder -> GoChannel -> plain subscriber (forwarder/pubsub, batches judged as multisets), 64 replies). " +
			"NON-FRESH UNMARSHAL TARGETS (all three cqrs marshalers): after the round trip into a fresh zero value every message is also decoded into (a) the one target that is kept per Go type for the whole batch and still holds the previous value of that type " +
			"(counters `unmarshal_into_reused_target`, `..._holding_different_value`, `unmarshal_zero_value_into_reused_nonzero_target`), in 1 of 4 a second time into the target that now holds the equal value (`unmarshal_same_message_twice_into_target`), " +
			"and in 1 of 2 (b) a pre-populated target: another generated value of the same type that the marshaler never touched (`unmarshal_into_prepopulated_target`). For the Protobuf marshalers the target must equal the marshaled value (proto.Equal / gogo Equal); " +
			"for the JSON marshaler the target must COVER it (see Assumptions). The reply marshaler has no caller-supplied target: there half of the reply messages are decoded twice (`replies_decoded_twice`) and every Reply handed out is compared again with its source after all other replies of the batch were decoded (`replies_rechecked_after_all_unmarshals`). " +
			"FORWARDER EDGE GRID: UUID {empty, non-empty} x payload {nil, empty non-nil, bytes incl. texts a JSON codec could take for a value (null, \"\", {}, [], base64, a whole envelope document)} x metadata {nil map, empty map, ordinary, keys/values spelled like the envelope's own fields " +
			"(uuid, payload, metadata, destination_topic and their Go/camel/upper-case spellings)} = 24 cells, 8 consecutive cells per case, so 3 cases of a class walk the grid (counters `forwarder_msgs_*`); destination topics of grid batches are in 1 of 2 spelled like envelope fields; " +
			"random forwarder messages keep whatever UUID was drawn, incl. the empty one (judgement is positional resp. by multiset, unique UUIDs are not needed). In the scripted class half of the envelopes reach the Forwarder on a carrier message as a broker would hand it over: " +
			"own (or empty) UUID, broker-side metadata incl. keys spelled like envelope fields and the forwarded message's own keys with other values (`forwarder_carrier_with_broker_uuid_and_metadata`) - the forwarded message is defined by the envelope alone. " +
			"Strings (UUID, metadata keys/values, topics, struct and protobuf string fields, map keys, custom names, error texts) come from a valid-UTF-8 generator: 7 of 10 uniform over a rune pool " +
			"(empty, control, quotes, multi-byte, astral, up to 600 runes), 3 of 10 'hostile' texts built from a corpus of ~300 fragments in 8 kinds that any re-interpretation of the text on the way would alter " +
			"(printf verbs/flags/%%/trailing %/URL-escapes; backslash sequences as text and quotes; HTML/XML/JSON specials <>& entities U+2028/9 and texts that are JSON documents; NUL, control, line breaks, ANSI; " +
			"Unicode and ASCII whitespace; template/shell/regexp/SQL/path/URL syntax and separators; texts that parse as numbers/bools/null/base64/reserved metadata keys; normalisation/case-folding/bidi variants and UTF-8 range borders), " +
			"bare, inside ordinary text, at the start/end, concatenated, repeated, quoted, with whitespace at the edges, long (255..8193 bytes) and very long (64 KiB..128 KiB) (counters `strings_with_*`, `strings_longer_*`). " +
			"Besides the random draws every class walks through the fragment corpus deterministically (counter `corpus_sweep_strings`): every 4th input (every 2nd forwarder message and batch topic) carries the next fragment " +
			"- bare, then inside text, then at the end of a text - in a rotating role (UUID / metadata key / metadata value; topic; typed string field / map key+value / untyped slot / list element / bare string value; " +
			"protobuf StringValue / Struct / FieldMask / Any; reply error text (errors.New, custom error type, %w-wrapped) / reply result), so in the quick tier (64 cases per class) each fragment is seen at least once per class and role group. " +
			"payloads are nil / empty / random bytes. Equals pairs differ from the base message in exactly one component (uuid, payload byte/length, nil-vs-empty payload, one value, " +
			"one key renamed with the same value (incl. empty value), key with empty value present vs absent, extra key, value swap, nil-vs-empty metadata) or not at all (independent rebuild); changed strings include near-misses " +
			"(appended/prepended whitespace, NUL, %, backslash, quote, combining mark, case change, one round of %%/backslash/HTML/URL escaping applied). " +
			"The JSON family has a statically typed part (scalars incl. int64/uint64 extremes, bytes, optional pointers, nested slices/maps, time, named command, KiB-sized blob, embedded struct, arrays, int-keyed maps, float32, `,string`, " +
			"keys differing only in case, pointer to pointer, slices of pointers with nil elements) and a part with UNTYPED slots (3 of 10 values): interface{} fields, map[string]interface{}, []interface{}, map[string][]interface{}, " +
			"map[string]map[string]interface{} at depth <= 4, also as the top-level value (*map[string]interface{}, *[]interface{}, *interface{}), holding only fixed points of encoding/json " +
			"(nil, bool, finite float64 incl. integral/huge/-0, string, non-nil nested maps/slices; counters `untyped_slot_*`, `values_with_numbers_in_untyped_slots`); the same types are used as request-reply results. " +
			"Every generated JSON value is first round-tripped through encoding/json alone; a value that is not a fixed point there is a harness error. On a mismatch the first differing path with both dynamic types is reported. " +
			"PROTOBUF SCHEMA CLASSES. cqrs/proto-schema runs the same round-trip program (fresh, reused, pre-populated targets, held messages, size ladder, corpus sweep) with ProtoMarshaler over values of generated code of a schema (c16pb, ordinary protoc-gen-go output: proto3 Event/Leaf with every scalar kind, " +
			"proto3 `optional` scalars, packed and unpacked repeated fields, 8 map types, two oneofs with 12+2 arms, recursion and well-known types as fields; proto2 Legacy with required/optional-with-default/group/map/oneof/extension range and 3 registered extensions; their older schema revisions EventOld/LeafOld/LegacyOld/EventOpaque), " +
			"of the well-known types (struct, any, timestamp, duration, field mask, the nine wrappers, empty, api, type, source context) and of descriptor.proto/plugin.proto types, drawn by a descriptor-driven generator: per field unset / present-but-zero (`proto_presence_fields_set_to_zero_value`, `proto_message_fields_present_but_empty`) / random; " +
			"every oneof arm and 'no arm' (random, plus a sweep: every 3rd generated value realises the next of the 26 (oneof, arm-or-unset) slots of Event, Legacy and structpb.Value, `proto_oneof_sweep_values`); lists and maps nil / empty non-nil (set through Go reflection, `proto_lists_empty_non_nil`, `proto_maps_empty_non_nil`, `proto_bytes_empty_non_nil`) / with zero-valued elements, " +
			"map entries with zero key and/or zero value (`proto_map_entries_zero_*`); floats incl. -0, +-Inf, NaN with canonical and other payloads (`proto_floats_*`); open-enum numbers the schema does not declare; registered extensions (`proto_extension_fields_set`); " +
			"UNKNOWN FIELDS (`values_with_unknown_fields_at_top_level`, `..._in_nested_messages`, `proto_nodes_with_unknown_fields`): set with protoreflect SetUnknown on the top-level message and/or on nested nodes (children, list elements, map values, oneof arms, well-known types inside; modes none 3 / top 2 / nested 2 / both 2 / many 1 of 10) - undeclared field numbers, all wire types incl. groups, " +
			"also a declared string/bytes/message field number with a fixed32/fixed64 wire type - and obtained by decoding (harness side, protobuf library) the encoding of a value of the richer type into the older revision of the schema (Event->EventOld/EventOpaque, Leaf->LeafOld, Legacy->LegacyOld/Empty; `proto_values_decoded_from_richer_schema`); " +
			"real FileDescriptorProtos of registered files; large messages (about 1 value in 3 cases: 100 KiB..2 MiB, rarely 8-12 MiB, as one bytes field, many list elements, many map entries, a 150-deep chain, one large unknown field, many unknown fields; `values_large_100KiB_to_12MiB`; plain and held round trip only). " +
			"Every generated value is first round-tripped through the protobuf library alone (a value that is not a fixed point there is a harness error). Protobuf values are compared with proto.Equal AND by byte equality of their deterministic encodings. " +
			"cqrs/gogo-schema does the same with the deprecated gogo ProtobufMarshaler: odd values are of gogo-generated types (gogo/protobuf/types: Value in every arm and unset - sweep over the 7 slots -, Struct/ListValue trees, wrappers, Timestamp, Duration, Any, FieldMask, Empty) with unknown fields (XXX_unrecognized) at the top level and/or nested, NaN/Inf/-0, nil vs empty maps/lists/bytes; " +
			"every 8th value is of a gogo-only type (below), even values are google.golang.org/protobuf messages of the schema family above (counters `gogo_std_*`; see Assumptions for the known defect that is counted instead of judged). A schema case is non-trivial when, in addition to the codec rule below, its batch had values with unknown fields at the top level and nested, a oneof arm set and a oneof unset and a presence field set to zero. " +
			"GOGO-ONLY MESSAGE TYPES (both gogo classes; 2 of 14 random values, 1 of 5 corpus-sweep carriers, 1 of 3 ladder values, every 8th value of the schema class; counter `gogo_only_type_values`): hand-written types in the style of the golang/protobuf <= 1.3 / gogo generators that implement gogo's proto.Message " +
			"(Reset/String/ProtoMessage) but not google.golang.org/protobuf's (no ProtoReflect), so the marshaler's std-proto fallback cannot handle them: OldGenEvent (proto3 struct tags: scalars, bytes, packed/unpacked lists, string map, nested message with presence, list of messages, unknown fields at the top level and nested), " +
			"OldGenCommand (proto2 struct tags: pointers = presence, one required field) and OldGenRaw (encodes itself with hand-written Marshal/Unmarshal, strict decoder). " +
			"ROUND TRIPS ARE INDEPENDENT OF WHAT THE MARSHALER SAW BEFORE (all five cqrs classes, history.go). For 3 of 4 values of a batch the program is: (1) a baseline round trip of the value (judged under the ordinary clauses; its message is held to the end too), " +
			"(2) 1-3 OTHER OPERATIONS aimed at the value's Go type, of which nothing is demanded (error / success / panic are only counted, `other_ops_*`, `other_op:<kind>`), each made through the same marshaler value (2 of 5), the one marshaler value that is kept for the whole case (1 of 5; 1 of 5 checked round trips go through it as well) " +
			"or another marshaler value (2 of 5: other NewUUID/GenerateName, defaults; for the gogo marshaler also a copy with DisableStdProtoFallback and its ToProtoMarshaler()): " +
			"Unmarshal of a bad payload into a fresh target of the type (declared length beyond the end, truncated varint/tag/fixed64, field number 0, end-group without start, unterminated group, over-long varint, a declared field number with another wire type, invalid UTF-8 in field 1, random bytes, " +
			"JSON object / truncated / wrong types / null / truncated array / two documents, empty and nil payload, a text, the encoding of the previous value of the batch (foreign type), the value's own payload truncated / with garbage appended / with one bit changed); " +
			"Unmarshal of a copy of the value's own payload or a bad payload into a target that is refused or cannot be filled (nil, non-pointer, typed nil pointer, a target of another type or codec family: JSON struct, gogo type, gogo-only types, std message, proto2 message with a required field, *chan); " +
			"Marshal of a value that is refused (a value of the SAME Go type that does not encode - std proto: invalid UTF-8 in a string field or required field unset; gogo-only: invalid UTF-8, required unset; JSON: NaN/Inf/chan/func inside the value -, typed nil pointer, non-pointer, chan, func, NaN, struct with a chan, a JSON struct for the Protobuf marshalers, a gogo-only message for ProtoMarshaler); " +
			"(3) the ordinary checked program (Marshal, name, Unmarshal into fresh / reused / pre-populated targets, held message), in 3 of 8 with further other operations between Marshal and the first Unmarshal (`values_with_other_ops_between_marshal_and_unmarshal`). " +
			"A check of step 3 that step 1 made too (Marshal, name, Unmarshal into a fresh target, identity) and that fails although step 1 held for the same marshaler value and value is reported as clause `cqrs-roundtrip-after-failed-op` (an operation of step 2 failed) resp. `cqrs-roundtrip-not-repeatable` (none failed); non-fresh targets keep their own clauses. " +
			"Cases of one child process run one after another, so process-level state poisoned in an earlier case fails step 1 already: that is reported under the ordinary clause together with the number of failed other operations the harness made on that Go type in the process and in the case. " +
			"Counters: `values_with_other_ops_around_their_round_trip`, `baseline_round_trips_before_other_ops`, `values_checked_after_failed_op_on_their_go_type`, `gogo_only_type_values_checked_after_failed_op_on_their_go_type`, `go_types_with_failed_ops`. " +
			"A case is non-trivial when its batch contained non-empty metadata / multi-byte or control strings / non-empty binary payloads (per class) and at least one expected-true and " +
			"one expected-false comparison (equals) resp. at least one metadata edit (copy) resp. at least one non-zero value and at least one value checked after a failed other operation on its Go type (codecs); distinct = hash of (class, generated inputs, kinds of other operations).",
		Assumptions: []string{
			"strings are valid UTF-8 (the statement's quantifier); invalid UTF-8 is out of scope because encoding/json and proto3 do not preserve it",
			"payload equality is equality of the byte strings: nil and empty payloads coincide; nil and empty metadata have the same (empty) key/value set",
			"Copy shares the payload slice by design (godoc: only metadata ownership is promised), so payload aliasing is not checked",
			"JSON values are compared with reflect.DeepEqual on types whose encoding/json round-trip is exact (finite floats, UTC times without monotonic reading)",
			"protobuf values (google.golang.org/protobuf) are the same value when proto.Equal says so (same type, same populated known and extension fields, same unknown fields; NaN equals NaN, as proto.Equal documents) AND their deterministic encodings are byte-equal " +
				"(which additionally separates -0 from +0 and NaNs with different payloads: the wire format carries the IEEE bits verbatim, and 'Unmarshal after Marshal is the identity' is read bit-exactly); the family is the set of values the protobuf library itself maps to themselves (checked per generated value). " +
				"Not generated: nil elements in lists/maps of messages (undefined in the Go API), invalid UTF-8 in proto3 strings, unknown-field bytes that use a field number the type declares with a fitting wire type or a registered extension number, proto2 closed-enum numbers that are not declared",
			"gogo values are the same value when the generated Equal and gogoproto.Equal say so AND a canonical bit-exact rendering of the tree (fields, sorted map keys, float bits, XXX_unrecognized) is equal; for a value holding a NaN only the rendering is consulted (gogo's Equal compares floats with ==). " +
				"-0 in a scalar without presence (DoubleValue.Value, FloatValue.Value) counts as +0: gogo's generated code does not encode a scalar for which `v != 0` is false, so the gogo library itself does not distinguish them; in a oneof arm the sign is compared",
			"KNOWN DEFECT, counted (`gogo_std_values_..._KNOWN_DEFECT_not_judged`) instead of judged: the deprecated gogo ProtobufMarshaler encodes a google.golang.org/protobuf message through gogo's struct-tag reflection, which silently leaves out the message's unknown fields, its extension fields and proto3 `optional bytes` fields that are present but empty " +
				"(unless gogo fails - it panics on a populated oneof - and Marshal falls back to ProtoMarshaler). Such a value is skipped only when the payload is exactly the encoding of the value without these parts; any other difference, and every value whose payload is complete, is judged normally",
			"the family of JSON-serialisable types is the set of values that encoding/json (the codec both JSON marshalers are documented to use) maps to themselves: in interface{} slots only nil, bool, float64, string, " +
				"non-nil []interface{} and map[string]interface{} (what json.Unmarshal stores in an interface value per its godoc) - no ints, no NaN/Inf, no nil maps/slices, no structs in untyped slots",
			"the text of a reply error is err.Error() of the handler error; its Go type is not expected to survive",
			"Unmarshal targets that already carry data (reused between calls, pre-populated) are in scope: cqrs hands Unmarshal whatever NewCommand/NewEvent or a custom handler returns, and the statement is about the value the caller holds after Unmarshal. " +
				"Protobuf marshalers: exact identity is demanded, because proto.Unmarshal (google.golang.org/protobuf: only UnmarshalOptions.Merge keeps old content; gogo: 'Unmarshal resets pb before starting to unmarshal') clears the target. " +
				"JSON marshaler: encoding/json, the codec the marshaler is documented to use, does not clear its target (godoc: unmarshaling an object into a map 'reuses the existing map, keeping existing entries'; struct fields absent from the document - here only omitempty fields whose value is empty - are left alone; " +
				"slice elements and pointees are decoded in place), so for a non-fresh target the identity cannot hold for stale map keys and omitted fields on the unchanged tree. Demanded is the part of the identity every such decoder guarantees ('covers'): every scalar, string, []byte, time, slice length and nil-ness, " +
				"nil pointer/map/interface, every marshaled map key with its value, and the complete content of untyped (interface{}) slots come back exactly; additional map keys and fields the document omits may keep what the target held",
			"well-formed round trips do not depend on earlier calls: the statement quantifies over all values without a condition on what the marshaler was handed before, so a round trip that held must still hold after calls that failed (bad payload, refused target, refused value) " +
				"through the same or any other marshaler value of the process. Nothing is demanded of the failing calls themselves (not even that they fail); they never get the judged value, message or target. " +
				"gogo-only message types are in the family of the deprecated gogo ProtobufMarshaler only (ProtoMarshaler refuses them by design); their identity is gogo's Equal AND the canonical bit-exact rendering, like the other gogo types",
			"forwarder: a carrier message's own UUID and metadata are not part of the envelope (wrap puts destination topic, UUID, payload, metadata into the carrier's payload), so they must not influence the forwarded message; messages of one Publish call through GoChannel are compared as a multiset because GoChannel does not order them",
		},
		Run: run,
	})
}

func run(e *vlib.Env) (res vlib.Result) {
	class := c16Classes[e.Idx%len(c16Classes)]
	res.Class = class
	defer func() {
		if r := recover(); r != nil {
			// the calls under test are pure functions: a panic inside them is a failed law, not a harness problem
			res.Fail("panic", "class %s: panic while exercising the code under test: %v", class, r)
			panicIfHarness(r)
		}
	}()
	switch class {
	case "message/equals":
		runEquals(e, &res)
	case "message/copy":
		runCopy(e, &res)
	case "cqrs/json":
		runJSON(e, &res)
	case "cqrs/proto":
		runProto(e, &res)
	case "cqrs/gogo":
		runGogo(e, &res)
	case "forwarder":
		runForwarder(e, &res)
	case "reply":
		runReply(e, &res)
	case "forwarder/pubsub":
		runForwarderPubSub(e, &res)
	case "cqrs/proto-schema":
		runProtoSchema(e, &res)
	case "cqrs/gogo-schema":
		runGogoSchema(e, &res)
	}
	return res
}

// harnessBug is panicked by harness code that detects its own inconsistency; it is re-panicked so that the
// driver reports a harness error instead of a violation.
type harnessBug string

func panicIfHarness(r any) {
	if hb, ok := r.(harnessBug); ok {
		panic(string(hb))
	}
}

// ---------------------------------------------------------------------------------------------------------
// generators

// genStr returns a valid-UTF-8 string: uniform over a rune pool (mostly short, sometimes long) or, in 3 of 10 draws, a
// "hostile" text (strings.go): printf verbs, backslashes, quotes, HTML/JSON specials, NUL, edge whitespace, very long.
func genStr(r *vlib.Rand) string {
	var s string
	switch r.Intn(20) {
	case 0:
		s = r.UTF8(600)
	case 1, 2:
		s = r.UTF8(40)
	case 3, 4, 5, 6, 7, 8:
		s = hostileStr(r)
	default:
		s = r.UTF8(6)
	}
	if !utf8.ValidString(s) {
		panic(harnessBug("generator produced invalid UTF-8"))
	}
	return s
}

// genNonEmpty returns a non-empty valid-UTF-8 string.
func genNonEmpty(r *vlib.Rand) string {
	for {
		if s := genStr(r); s != "" {
			return s
		}
	}
}

// msgSpec is the harness-owned description of a message value. Messages under test are built from it and
// judged against it; it is never handed to watermill.
type msgSpec struct {
	UUID    string            `json:"uuid"`
	Payload []byte            `json:"payload"`
	NilPay  bool              `json:"nil_payload,omitempty"`
	Meta    map[string]string `json:"metadata"`
	NilMeta bool              `json:"nil_metadata,omitempty"`
	Literal bool              `json:"literal,omitempty"` // built as a struct literal instead of NewMessage+Set
}

func genMeta(r *vlib.Rand) map[string]string {
	n := 0
	switch r.Intn(6) {
	case 0:
		n = 0
	case 1:
		n = 1
	default:
		n = r.Range(1, 6)
	}
	m := map[string]string{}
	for len(m) < n {
		v := genStr(r)
		if r.Chance(0.3) {
			v = ""
		}
		m[genStr(r)] = v
	}
	return m
}

func genSpec(r *vlib.Rand) msgSpec {
	s := msgSpec{UUID: genStr(r), Payload: r.Payload(48), Meta: genMeta(r)}
	if r.Chance(0.05) {
		s.Payload = r.Bytes(r.Range(200, 4000))
	}
	s.NilPay = s.Payload == nil
	if len(s.Meta) == 0 && r.Chance(0.3) {
		s.NilMeta, s.Literal = true, true
	} else if r.Chance(0.25) {
		s.Literal = true
	}
	return s
}

func (s msgSpec) clone() msgSpec {
	c := s
	if s.Payload != nil {
		c.Payload = append([]byte{}, s.Payload...)
	}
	c.Meta = map[string]string{}
	for k, v := range s.Meta {
		c.Meta[k] = v
	}
	return c
}

// build makes a fresh message (own byte slice, own map) from the spec.
func (s msgSpec) build() *message.Message {
	var p message.Payload
	if !s.NilPay {
		p = append(message.Payload{}, s.Payload...)
	}
	if s.Literal {
		m := &message.Message{UUID: s.UUID, Payload: p}
		if !s.NilMeta {
			m.Metadata = message.Metadata{}
			for k, v := range s.Meta {
				m.Metadata[k] = v
			}
		}
		return m
	}
	m := message.NewMessage(s.UUID, p)
	for _, k := range sortedKeys(s.Meta) {
		m.Metadata.Set(k, s.Meta[k])
	}
	return m
}

func sortedKeys(m map[string]string) []string {
	ks := make([]string, 0, len(m))
	for k := range m {
		ks = append(ks, k)
	}
	sort.Strings(ks)
	return ks
}

// sameKV is the independent comparison of two key/value sets (no length shortcut, presence checked both ways).
func sameKV(a, b map[string]string) bool {
	for k, v := range a {
		if w, ok := b[k]; !ok || w != v {
			return false
		}
	}
	for k, v := range b {
		if w, ok := a[k]; !ok || w != v {
			return false
		}
	}
	return true
}

// refEqual is the reference for Equals: UUID, payload bytes and the complete key/value set coincide.
func refEqual(a, b msgSpec) bool {
	return a.UUID == b.UUID && string(a.Payload) == string(b.Payload) && sameKV(a.Meta, b.Meta)
}

// matches compares an actual message with a spec, component by component; "" when they coincide.
func (s msgSpec) matches(m *message.Message) string {
	if m == nil {
		return "message is nil"
	}
	if m.UUID != s.UUID {
		return fmt.Sprintf("uuid %q, want %q", m.UUID, s.UUID)
	}
	if string(m.Payload) != string(s.Payload) {
		return fmt.Sprintf("payload %s, want %s", showBytes(m.Payload), showBytes(s.Payload))
	}
	if !sameKV(map[string]string(m.Metadata), s.Meta) {
		return fmt.Sprintf("metadata %s, want %s", showMeta(m.Metadata), showMeta(s.Meta))
	}
	return ""
}

func showBytes(b []byte) string {
	if b == nil {
		return "nil"
	}
	if len(b) > 48 {
		return fmt.Sprintf("%x...(%d bytes)", b[:48], len(b))
	}
	return fmt.Sprintf("%x(%d bytes)", b, len(b))
}

func showStr(s string) string {
	if len(s) > 80 {
		return fmt.Sprintf("%+q...(%d bytes)", s[:80], len(s))
	}
	return fmt.Sprintf("%+q", s)
}

func showMeta(m map[string]string) string {
	if m == nil {
		return "nil"
	}
	out := "{"
	for i, k := range sortedKeys(m) {
		if i > 0 {
			out += ", "
		}
		if i >= 8 {
			out += "..."
			break
		}
		out += showStr(k) + ":" + showStr(m[k])
	}
	return out + "}"
}

func (s msgSpec) String() string {
	return fmt.Sprintf("{uuid=%s payload=%s metadata=%s literal=%v}", showStr(s.UUID), showBytes(s.Payload), showMeta(metaOrNil(s)), s.Literal)
}

func metaOrNil(s msgSpec) map[string]string {
	if s.NilMeta {
		return nil
	}
	return s.Meta
}

// features of a string set, used for non-triviality, counters and signatures
type feat struct {
	multibyte, control, empty, long bool
	// numbers of strings by hostile kind (strings.go)
	n, nPercent, nTrailingPercent, nQuoteBackslash, nMarkup, nNUL, nEdgeSpace, nTemplate, nLong4k, nLong64k int
}

func (f *feat) addStr(s string) {
	f.n++
	f.classify(s)
	if s == "" {
		f.empty = true
	}
	if len(s) > 200 {
		f.long = true
	}
	for _, c := range s {
		if c >= 0x80 {
			f.multibyte = true
		}
		if c < 0x20 || c == 0x7f {
			f.control = true
		}
	}
}

func (f *feat) addSpec(s msgSpec) {
	f.addStr(s.UUID)
	for k, v := range s.Meta {
		f.addStr(k)
		f.addStr(v)
	}
}

func (f feat) unusual() bool { return f.multibyte && f.control && f.empty }

// guard runs f and converts a panic of the code under test into an error string.
func guard(f func()) (panicked string) {
	defer func() {
		if r := recover(); r != nil {
			if _, ok := r.(harnessBug); ok {
				panic(r)
			}
			panicked = fmt.Sprint(r)
		}
	}()
	f()
	return ""
}
