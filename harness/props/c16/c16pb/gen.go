//go:build ignore

// gen.go produces events.pb.go and legacy.pb.go of this package without protoc: the schemas are written down as
// FileDescriptorProtos (what protoc would hand to a plugin), wrapped into a CodeGeneratorRequest and piped through the
// unmodified protoc-gen-go of the module cache (google.golang.org/protobuf/cmd/protoc-gen-go). The output is ordinary
// generated code. Run (offline) from /verif/harness:
//
//	go build -o /tmp/protoc-gen-go google.golang.org/protobuf/cmd/protoc-gen-go
//	go run props/c16/c16pb/gen.go /tmp/protoc-gen-go props/c16/c16pb
package main

import (
	"bytes"
	"fmt"
	"os"
	"os/exec"
	"path/filepath"
	"strings"

	"google.golang.org/protobuf/proto"
	"google.golang.org/protobuf/reflect/protodesc"
	"google.golang.org/protobuf/reflect/protoreflect"
	"google.golang.org/protobuf/reflect/protoregistry"
	"google.golang.org/protobuf/types/descriptorpb"
	"google.golang.org/protobuf/types/known/anypb"
	"google.golang.org/protobuf/types/known/durationpb"
	"google.golang.org/protobuf/types/known/fieldmaskpb"
	"google.golang.org/protobuf/types/known/structpb"
	"google.golang.org/protobuf/types/known/timestamppb"
	"google.golang.org/protobuf/types/known/wrapperspb"
	"google.golang.org/protobuf/types/pluginpb"
)

type T = descriptorpb.FieldDescriptorProto_Type

const (
	tString   = descriptorpb.FieldDescriptorProto_TYPE_STRING
	tBytes    = descriptorpb.FieldDescriptorProto_TYPE_BYTES
	tInt64    = descriptorpb.FieldDescriptorProto_TYPE_INT64
	tUint64   = descriptorpb.FieldDescriptorProto_TYPE_UINT64
	tInt32    = descriptorpb.FieldDescriptorProto_TYPE_INT32
	tUint32   = descriptorpb.FieldDescriptorProto_TYPE_UINT32
	tSint32   = descriptorpb.FieldDescriptorProto_TYPE_SINT32
	tSint64   = descriptorpb.FieldDescriptorProto_TYPE_SINT64
	tFixed64  = descriptorpb.FieldDescriptorProto_TYPE_FIXED64
	tFixed32  = descriptorpb.FieldDescriptorProto_TYPE_FIXED32
	tSfixed32 = descriptorpb.FieldDescriptorProto_TYPE_SFIXED32
	tSfixed64 = descriptorpb.FieldDescriptorProto_TYPE_SFIXED64
	tDouble   = descriptorpb.FieldDescriptorProto_TYPE_DOUBLE
	tFloat    = descriptorpb.FieldDescriptorProto_TYPE_FLOAT
	tBool     = descriptorpb.FieldDescriptorProto_TYPE_BOOL
	tEnum     = descriptorpb.FieldDescriptorProto_TYPE_ENUM
	tMsg      = descriptorpb.FieldDescriptorProto_TYPE_MESSAGE
	tGroup    = descriptorpb.FieldDescriptorProto_TYPE_GROUP
)

type fld struct {
	name     string
	num      int32
	typ      T
	typeName string // for enum / message / group
	label    string // "", "rep", "opt" (proto3 optional resp. proto2 optional), "req"
	oneof    string
	mapKey   *fld // map<key,value>: typ/typeName describe the value
	def      string
	packed   *bool
	extendee string
}

func camel(s string) string {
	out := ""
	for _, p := range strings.Split(s, "_") {
		if p != "" {
			out += strings.ToUpper(p[:1]) + p[1:]
		}
	}
	return out
}

func fieldProto(f fld, proto3 bool) *descriptorpb.FieldDescriptorProto {
	d := &descriptorpb.FieldDescriptorProto{Name: proto.String(f.name), Number: proto.Int32(f.num), Type: f.typ.Enum()}
	if f.typeName != "" {
		d.TypeName = proto.String(f.typeName)
	}
	switch f.label {
	case "rep":
		d.Label = descriptorpb.FieldDescriptorProto_LABEL_REPEATED.Enum()
	case "req":
		d.Label = descriptorpb.FieldDescriptorProto_LABEL_REQUIRED.Enum()
	default:
		d.Label = descriptorpb.FieldDescriptorProto_LABEL_OPTIONAL.Enum()
	}
	if f.def != "" {
		d.DefaultValue = proto.String(f.def)
	}
	if f.packed != nil {
		d.Options = &descriptorpb.FieldOptions{Packed: f.packed}
	}
	if f.extendee != "" {
		d.Extendee = proto.String(f.extendee)
	}
	return d
}

// message builds a DescriptorProto: real oneofs first, then the synthetic oneofs of proto3 optional fields, map entry types nested.
func message(pkg, name string, proto3 bool, fields []fld, nested ...*descriptorpb.DescriptorProto) *descriptorpb.DescriptorProto {
	m := &descriptorpb.DescriptorProto{Name: proto.String(name), NestedType: nested}
	oneofIdx := map[string]int32{}
	for _, f := range fields {
		if f.oneof != "" {
			if _, ok := oneofIdx[f.oneof]; !ok {
				oneofIdx[f.oneof] = int32(len(m.OneofDecl))
				m.OneofDecl = append(m.OneofDecl, &descriptorpb.OneofDescriptorProto{Name: proto.String(f.oneof)})
			}
		}
	}
	var synth []*descriptorpb.FieldDescriptorProto
	for _, f := range fields {
		if f.mapKey != nil {
			entry := camel(f.name) + "Entry"
			k, v := *f.mapKey, f
			k.name, k.num, k.label = "key", 1, ""
			v.name, v.num, v.label, v.mapKey = "value", 2, "", nil
			m.NestedType = append(m.NestedType, &descriptorpb.DescriptorProto{
				Name:    proto.String(entry),
				Field:   []*descriptorpb.FieldDescriptorProto{fieldProto(k, proto3), fieldProto(v, proto3)},
				Options: &descriptorpb.MessageOptions{MapEntry: proto.Bool(true)},
			})
			m.Field = append(m.Field, fieldProto(fld{name: f.name, num: f.num, typ: tMsg, typeName: "." + pkg + "." + name + "." + entry, label: "rep"}, proto3))
			continue
		}
		d := fieldProto(f, proto3)
		if f.oneof != "" {
			d.OneofIndex = proto.Int32(oneofIdx[f.oneof])
		}
		if proto3 && f.label == "opt" {
			d.Proto3Optional = proto.Bool(true)
			synth = append(synth, d)
		}
		m.Field = append(m.Field, d)
	}
	for _, d := range synth {
		d.OneofIndex = proto.Int32(int32(len(m.OneofDecl)))
		m.OneofDecl = append(m.OneofDecl, &descriptorpb.OneofDescriptorProto{Name: proto.String("_" + d.GetName())})
	}
	return m
}

const goPkg = "verifharness/props/c16/c16pb"

func eventsFile() *descriptorpb.FileDescriptorProto {
	const pkg = "verif.c16"
	q := func(n string) string { return "." + pkg + "." + n }
	leaf := func(typeName string) []fld {
		return []fld{
			{name: "name", num: 1, typ: tString},
			{name: "n", num: 2, typ: tSint64},
			{name: "note", num: 3, typ: tString, label: "opt"},
			{name: "kids", num: 4, typ: tMsg, typeName: typeName, label: "rep"},
		}
	}
	event := []fld{
		{name: "id", num: 1, typ: tString},
		{name: "data", num: 2, typ: tBytes},
		{name: "i64", num: 3, typ: tInt64},
		{name: "u64", num: 4, typ: tUint64},
		{name: "s32", num: 5, typ: tSint32},
		{name: "fx64", num: 6, typ: tFixed64},
		{name: "sfx32", num: 7, typ: tSfixed32},
		{name: "d", num: 8, typ: tDouble},
		{name: "f", num: 9, typ: tFloat},
		{name: "b", num: 10, typ: tBool},
		{name: "color", num: 11, typ: tEnum, typeName: q("Color")},
		{name: "i32", num: 12, typ: tInt32},
		{name: "u32", num: 13, typ: tUint32},

		{name: "opt_s", num: 20, typ: tString, label: "opt"},
		{name: "opt_i", num: 21, typ: tInt64, label: "opt"},
		{name: "opt_b", num: 22, typ: tBool, label: "opt"},
		{name: "opt_d", num: 23, typ: tDouble, label: "opt"},
		{name: "opt_bytes", num: 24, typ: tBytes, label: "opt"},
		{name: "opt_color", num: 25, typ: tEnum, typeName: q("Color"), label: "opt"},
		{name: "opt_f", num: 26, typ: tFloat, label: "opt"},
		{name: "opt_u", num: 27, typ: tUint32, label: "opt"},

		{name: "rs", num: 30, typ: tString, label: "rep"},
		{name: "ri", num: 31, typ: tInt64, label: "rep"},
		{name: "rd", num: 32, typ: tDouble, label: "rep"},
		{name: "rl", num: 33, typ: tMsg, typeName: q("Leaf"), label: "rep"},
		{name: "rb", num: 34, typ: tBytes, label: "rep"},
		{name: "rc", num: 35, typ: tEnum, typeName: q("Color"), label: "rep"},
		{name: "rbool", num: 36, typ: tBool, label: "rep"},
		{name: "rf", num: 37, typ: tFloat, label: "rep"},
		{name: "rfx32", num: 38, typ: tFixed32, label: "rep"},
		{name: "rs64", num: 39, typ: tSint64, label: "rep", packed: proto.Bool(false)},

		{name: "mss", num: 40, typ: tString, mapKey: &fld{typ: tString}},
		{name: "mil", num: 41, typ: tMsg, typeName: q("Leaf"), mapKey: &fld{typ: tInt64}},
		{name: "msd", num: 42, typ: tDouble, mapKey: &fld{typ: tString}},
		{name: "mbb", num: 43, typ: tBytes, mapKey: &fld{typ: tBool}},
		{name: "muc", num: 44, typ: tEnum, typeName: q("Color"), mapKey: &fld{typ: tUint32}},
		{name: "msi", num: 45, typ: tInt64, mapKey: &fld{typ: tSint32}},
		{name: "mst", num: 46, typ: tMsg, typeName: ".google.protobuf.Value", mapKey: &fld{typ: tString}},
		{name: "mfe", num: 47, typ: tMsg, typeName: q("Event"), mapKey: &fld{typ: tFixed64}},

		{name: "leaf", num: 50, typ: tMsg, typeName: q("Leaf")},
		{name: "child", num: 51, typ: tMsg, typeName: q("Event")},

		{name: "c_s", num: 60, typ: tString, oneof: "choice"},
		{name: "c_i", num: 61, typ: tInt64, oneof: "choice"},
		{name: "c_leaf", num: 62, typ: tMsg, typeName: q("Leaf"), oneof: "choice"},
		{name: "c_bytes", num: 63, typ: tBytes, oneof: "choice"},
		{name: "c_color", num: 64, typ: tEnum, typeName: q("Color"), oneof: "choice"},
		{name: "c_d", num: 65, typ: tDouble, oneof: "choice"},
		{name: "c_b", num: 66, typ: tBool, oneof: "choice"},
		{name: "c_event", num: 67, typ: tMsg, typeName: q("Event"), oneof: "choice"},
		{name: "c_f", num: 68, typ: tFloat, oneof: "choice"},
		{name: "c_null", num: 69, typ: tEnum, typeName: ".google.protobuf.NullValue", oneof: "choice"},
		{name: "c_u32", num: 70, typ: tUint32, oneof: "choice"},
		{name: "c_when", num: 71, typ: tMsg, typeName: ".google.protobuf.Timestamp", oneof: "choice"},

		{name: "x_u", num: 75, typ: tUint64, oneof: "second"},
		{name: "x_s", num: 76, typ: tString, oneof: "second"},

		{name: "when", num: 80, typ: tMsg, typeName: ".google.protobuf.Timestamp"},
		{name: "any", num: 81, typ: tMsg, typeName: ".google.protobuf.Any"},
		{name: "st", num: 82, typ: tMsg, typeName: ".google.protobuf.Struct"},
		{name: "wrapped", num: 83, typ: tMsg, typeName: ".google.protobuf.StringValue"},
		{name: "dur", num: 84, typ: tMsg, typeName: ".google.protobuf.Duration"},
		{name: "val", num: 85, typ: tMsg, typeName: ".google.protobuf.Value"},
		{name: "mask", num: 86, typ: tMsg, typeName: ".google.protobuf.FieldMask"},
		{name: "wd", num: 87, typ: tMsg, typeName: ".google.protobuf.DoubleValue"},
		{name: "wb", num: 88, typ: tMsg, typeName: ".google.protobuf.BytesValue"},
		{name: "rany", num: 89, typ: tMsg, typeName: ".google.protobuf.Any", label: "rep"},
	}
	// the same event as an OLDER revision of the schema knows it: a subset of the fields with the same numbers and types
	eventOld := []fld{
		{name: "id", num: 1, typ: tString},
		{name: "i64", num: 3, typ: tInt64},
		{name: "rs", num: 30, typ: tString, label: "rep"},
		{name: "rl", num: 33, typ: tMsg, typeName: q("LeafOld"), label: "rep"},
		{name: "mil", num: 41, typ: tMsg, typeName: q("LeafOld"), mapKey: &fld{typ: tInt64}},
		{name: "leaf", num: 50, typ: tMsg, typeName: q("LeafOld")},
		{name: "child", num: 51, typ: tMsg, typeName: q("EventOld")},
		{name: "c_s", num: 60, typ: tString, oneof: "choice"},
		{name: "c_leaf", num: 62, typ: tMsg, typeName: q("LeafOld"), oneof: "choice"},
		{name: "when", num: 80, typ: tMsg, typeName: ".google.protobuf.Timestamp"},
		{name: "st", num: 82, typ: tMsg, typeName: ".google.protobuf.Struct"},
	}
	return &descriptorpb.FileDescriptorProto{
		Name:    proto.String("verif/c16/events.proto"),
		Package: proto.String(pkg),
		Syntax:  proto.String("proto3"),
		Dependency: []string{"google/protobuf/timestamp.proto", "google/protobuf/any.proto", "google/protobuf/struct.proto",
			"google/protobuf/wrappers.proto", "google/protobuf/duration.proto", "google/protobuf/field_mask.proto"},
		Options: &descriptorpb.FileOptions{GoPackage: proto.String(goPkg)},
		EnumType: []*descriptorpb.EnumDescriptorProto{{
			Name: proto.String("Color"),
			Value: []*descriptorpb.EnumValueDescriptorProto{
				{Name: proto.String("COLOR_UNSPECIFIED"), Number: proto.Int32(0)},
				{Name: proto.String("COLOR_RED"), Number: proto.Int32(1)},
				{Name: proto.String("COLOR_GREEN"), Number: proto.Int32(2)},
				{Name: proto.String("COLOR_NEGATIVE"), Number: proto.Int32(-1)},
				{Name: proto.String("COLOR_MAX"), Number: proto.Int32(2147483647)},
			},
		}},
		MessageType: []*descriptorpb.DescriptorProto{
			message(pkg, "Leaf", true, leaf(q("Leaf"))),
			message(pkg, "Event", true, event),
			message(pkg, "LeafOld", true, []fld{{name: "name", num: 1, typ: tString}}),
			message(pkg, "EventOld", true, eventOld),
			// an event type without any field: every field of an event decoded into it is unknown
			message(pkg, "EventOpaque", true, nil),
		},
	}
}

func legacyFile() *descriptorpb.FileDescriptorProto {
	const pkg = "verif.c16"
	q := func(n string) string { return "." + pkg + "." + n }
	extra := message(pkg, "Extra", false, []fld{
		{name: "note", num: 1, typ: tString, label: "opt"},
		{name: "vals", num: 2, typ: tInt64, label: "rep"},
	})
	legacy := message(pkg, "Legacy", false, []fld{
		{name: "id", num: 1, typ: tString, label: "req"},
		{name: "count", num: 2, typ: tInt32, label: "opt", def: "7"},
		{name: "label", num: 3, typ: tString, label: "opt", def: "dflt"},
		{name: "flag", num: 4, typ: tBool, label: "opt", def: "true"},
		{name: "ratio", num: 5, typ: tDouble, label: "opt"},
		{name: "blob", num: 6, typ: tBytes, label: "opt"},
		{name: "mode", num: 7, typ: tEnum, typeName: q("Legacy.Mode"), label: "opt", def: "MODE_B"},
		{name: "nums", num: 8, typ: tInt32, label: "rep"},
		{name: "packed_nums", num: 9, typ: tSint32, label: "rep", packed: proto.Bool(true)},
		{name: "extra", num: 10, typ: tGroup, typeName: q("Legacy.Extra"), label: "opt"},
		{name: "next", num: 11, typ: tMsg, typeName: q("Legacy"), label: "opt"},
		{name: "u64", num: 12, typ: tUint64, label: "opt"},
		{name: "f32", num: 13, typ: tFloat, label: "opt", def: "1.5"},
		{name: "names", num: 14, typ: tString, mapKey: &fld{typ: tString}},
		{name: "pick_s", num: 15, typ: tString, oneof: "pick"},
		{name: "pick_n", num: 16, typ: tInt32, oneof: "pick"},
	}, extra)
	legacy.EnumType = []*descriptorpb.EnumDescriptorProto{{
		Name: proto.String("Mode"),
		Value: []*descriptorpb.EnumValueDescriptorProto{
			{Name: proto.String("MODE_A"), Number: proto.Int32(1)},
			{Name: proto.String("MODE_B"), Number: proto.Int32(2)},
		},
	}}
	legacy.ExtensionRange = []*descriptorpb.DescriptorProto_ExtensionRange{{Start: proto.Int32(100), End: proto.Int32(200)}}
	// the older revision of Legacy: fewer fields, no extensions declared
	legacyOld := message(pkg, "LegacyOld", false, []fld{
		{name: "id", num: 1, typ: tString, label: "req"},
		{name: "count", num: 2, typ: tInt32, label: "opt", def: "7"},
		{name: "next", num: 11, typ: tMsg, typeName: q("LegacyOld"), label: "opt"},
	})
	return &descriptorpb.FileDescriptorProto{
		Name:        proto.String("verif/c16/legacy.proto"),
		Package:     proto.String(pkg),
		Syntax:      proto.String("proto2"),
		Options:     &descriptorpb.FileOptions{GoPackage: proto.String(goPkg)},
		MessageType: []*descriptorpb.DescriptorProto{legacy, legacyOld},
		Extension: []*descriptorpb.FieldDescriptorProto{
			fieldProto(fld{name: "ext_note", num: 100, typ: tString, label: "opt", extendee: q("Legacy")}, false),
			fieldProto(fld{name: "ext_next", num: 101, typ: tMsg, typeName: q("Legacy"), label: "opt", extendee: q("Legacy")}, false),
			fieldProto(fld{name: "ext_nums", num: 102, typ: tInt32, label: "rep", extendee: q("Legacy")}, false),
		},
	}
}

func main() {
	if len(os.Args) != 3 {
		fmt.Fprintln(os.Stderr, "usage: gen <protoc-gen-go binary> <output dir>")
		os.Exit(2)
	}
	files := []*descriptorpb.FileDescriptorProto{eventsFile(), legacyFile()}
	req := &pluginpb.CodeGeneratorRequest{Parameter: proto.String("paths=source_relative")}
	for _, fd := range []protoreflect.FileDescriptor{
		timestamppb.File_google_protobuf_timestamp_proto, anypb.File_google_protobuf_any_proto, structpb.File_google_protobuf_struct_proto,
		wrapperspb.File_google_protobuf_wrappers_proto, durationpb.File_google_protobuf_duration_proto, fieldmaskpb.File_google_protobuf_field_mask_proto,
	} {
		req.ProtoFile = append(req.ProtoFile, protodesc.ToFileDescriptorProto(fd))
	}
	for _, f := range files {
		if _, err := protodesc.NewFile(f, protoregistry.GlobalFiles); err != nil {
			fmt.Fprintln(os.Stderr, "invalid descriptor", f.GetName(), err)
			os.Exit(1)
		}
		req.ProtoFile = append(req.ProtoFile, f)
		req.FileToGenerate = append(req.FileToGenerate, f.GetName())
	}
	in, err := proto.Marshal(req)
	if err != nil {
		panic(err)
	}
	cmd := exec.Command(os.Args[1])
	cmd.Stdin = bytes.NewReader(in)
	cmd.Stderr = os.Stderr
	out, err := cmd.Output()
	if err != nil {
		panic(err)
	}
	var resp pluginpb.CodeGeneratorResponse
	if err := proto.Unmarshal(out, &resp); err != nil {
		panic(err)
	}
	if resp.Error != nil {
		fmt.Fprintln(os.Stderr, "plugin error:", resp.GetError())
		os.Exit(1)
	}
	for _, f := range resp.File {
		p := filepath.Join(os.Args[2], filepath.Base(f.GetName()))
		if err := os.WriteFile(p, []byte(f.GetContent()), 0o644); err != nil {
			panic(err)
		}
		fmt.Println("wrote", p)
	}
}
