package c16

import (
	"encoding/json"
	"fmt"
	"math"
	"reflect"

	"verifharness/vlib"
)

// ---------------------------------------------------------------------------------------------------------
// JSON family, part 2: types with UNTYPED slots (interface{} fields, map[string]interface{}, []interface{} at depth, also as
// the top-level value) and statically typed shapes beyond plain structs (embedding, arrays, integer map keys, float32,
// uint64 past 2^53, `,string`, field names differing only in case).
//
// The round trip can only be an identity for values that encoding/json itself maps to themselves. In an untyped slot these
// are exactly: nil, bool, float64 (finite), string (valid UTF-8), NON-nil []interface{} and NON-nil map[string]interface{}
// of such values - what json.Unmarshal produces for an interface{} target ("To unmarshal JSON into an interface value,
// Unmarshal stores one of these in the interface value: bool, float64, string, []interface{}, map[string]interface{}, nil",
// encoding/json godoc). No ints, no float32, no nil maps/slices, no typed structs in untyped slots. genTree (cqrs.go)
// generates exactly these. Every generated value is additionally run through encoding/json directly (selfCheckJSON) before
// it is handed to watermill: a value that is not a fixed point there is a generator bug (harness error), never a violation.

type EvLoose struct {
	ID    string         `json:"id"`
	Value any            `json:"value"`
	Attrs map[string]any `json:"attrs"`
	List  []any          `json:"list"`
	Opt   any            `json:"opt,omitempty"`
	Deep  *EvLoose       `json:"deep,omitempty"`
}

type EvBase struct {
	ID  string `json:"id"`
	Rev uint64 `json:"rev"`
}

// EvShapes: statically typed, but not the plain struct-of-scalars shape.
type EvShapes struct {
	EvBase                            // embedded: fields inlined
	Arr     [3]int32                  `json:"arr"`
	ByInt   map[int]string            `json:"by_int"`
	F32     float32                   `json:"f32"`
	Big     uint64                    `json:"big,string"`
	Lower   string                    `json:"name"`
	Upper   string                    `json:"NAME"` // differs from Lower's key only in case (decoding prefers the exact match)
	Nested  map[string][]EvItem       `json:"nested"`
	PP      **string                  `json:"pp"`
	Untyped map[string][]any          `json:"untyped"`
	Pairs   [][2]float64              `json:"pairs"`
	Any     any                       `json:"-"` // never encoded: stays nil on both sides
	Set     map[string]struct{}       `json:"set"`
	Ptrs    []*EvBase                 `json:"ptrs"`
	IfaceIn struct{ V any }           `json:"iface_in"`
	M2      map[string]map[string]any `json:"m2"`
}

func genFloat32(r *vlib.Rand) float32 {
	switch r.Intn(4) {
	case 0:
		return 0
	case 1:
		return []float32{math.MaxFloat32, -math.MaxFloat32, math.SmallestNonzeroFloat32, 0.1, 1 << 24, 1<<24 + 2, -1.5}[r.Intn(7)]
	default:
		for {
			f := math.Float32frombits(uint32(r.Uint64()))
			if f == f && !math.IsInf(float64(f), 0) {
				return f
			}
		}
	}
}

// untypedStats says what a tree holds in untyped slots (for counters: a case must really have had numbers there).
type untypedStats struct{ numbers, strings, bools, nils, maps, lists, depth int }

func (u *untypedStats) walk(t any, depth int) {
	if depth > u.depth {
		u.depth = depth
	}
	switch x := t.(type) {
	case nil:
		u.nils++
	case bool:
		u.bools++
	case float64:
		u.numbers++
	case string:
		u.strings++
	case []any:
		if x == nil {
			panic(harnessBug("nil []any in an untyped slot is not a fixed point of encoding/json"))
		}
		u.lists++
		for _, e := range x {
			u.walk(e, depth+1)
		}
	case map[string]any:
		if x == nil {
			panic(harnessBug("nil map[string]any in an untyped slot is not a fixed point of encoding/json"))
		}
		u.maps++
		for _, e := range x {
			u.walk(e, depth+1)
		}
	default:
		panic(harnessBug(fmt.Sprintf("%T in an untyped slot is not a fixed point of encoding/json", t)))
	}
}

// genNumTree is genTree biased towards numbers: the JSON number is the one JSON kind whose Go representation in an untyped
// slot is a decoder option (float64 / json.Number / int64 in other libraries).
func genNumTree(r *vlib.Rand, depth int, strs *[]string) any {
	switch r.Intn(5) {
	case 0:
		return genFloat(r)
	case 1:
		// integral and large-magnitude numbers: a decoder that prefers int64 or big numbers changes exactly these
		return []float64{0, 1, -1, 42, 3, 1 << 53, -(1 << 53), 1e15, 1e21, 1e300, 123456789012, 0.5, -2, 9.99, 1.5, math.MaxInt64, math.MaxUint64}[r.Intn(17)]
	default:
		return genTree(r, depth, strs)
	}
}

// selfCheckJSON verifies with encoding/json alone (no watermill code) that v is a fixed point of the codec the marshalers are
// documented to use. mk returns a fresh zero target.
func selfCheckJSON(v any, fresh func() any) {
	b, err := json.Marshal(v)
	if err != nil {
		panic(harnessBug(fmt.Sprintf("generated value %T is not JSON-serialisable: %v", v, err)))
	}
	out := fresh()
	if err := json.Unmarshal(b, out); err != nil {
		panic(harnessBug(fmt.Sprintf("generated value %T does not decode with encoding/json: %v (%s)", v, err, clip(string(b), 300))))
	}
	if !reflect.DeepEqual(v, out) {
		panic(harnessBug(fmt.Sprintf("generated value is not a fixed point of encoding/json: %s -> %s -> %s", clip(fmt.Sprintf("%#v", v), 400), clip(string(b), 300), clip(fmt.Sprintf("%#v", out), 400))))
	}
}

func genLoose(r *vlib.Rand, depth int, strs *[]string, us *untypedStats) *EvLoose {
	l := &EvLoose{ID: genStr(r)}
	*strs = append(*strs, l.ID)
	if r.Chance(0.85) {
		l.Value = genNumTree(r, 2, strs)
		us.walk(l.Value, 0)
	}
	switch r.Intn(4) {
	case 0: // nil map in a TYPED slot: null <-> nil
	case 1:
		l.Attrs = map[string]any{}
	default:
		l.Attrs = map[string]any{}
		for i := r.Range(1, 4); i > 0; i-- {
			k := genStr(r)
			*strs = append(*strs, k)
			l.Attrs[k] = genNumTree(r, 2, strs)
		}
	}
	if l.Attrs != nil {
		us.walk(l.Attrs, 0)
	}
	switch r.Intn(4) {
	case 0:
	case 1:
		l.List = []any{}
	default:
		l.List = []any{}
		for i := r.Range(1, 4); i > 0; i-- {
			l.List = append(l.List, genNumTree(r, 2, strs))
		}
	}
	if l.List != nil {
		us.walk(l.List, 0)
	}
	if r.Chance(0.4) {
		l.Opt = genNumTree(r, 1, strs) // omitempty on an interface omits only the nil interface: 0, false, "" are kept
		us.walk(l.Opt, 0)
	}
	if depth > 0 && r.Chance(0.3) {
		l.Deep = genLoose(r, depth-1, strs, us)
	}
	return l
}

func genShapes(r *vlib.Rand, strs *[]string, us *untypedStats) *EvShapes {
	s := &EvShapes{EvBase: EvBase{ID: genStr(r), Rev: r.Uint64()}, F32: genFloat32(r), Big: r.Uint64(), Lower: genStr(r), Upper: genStr(r)}
	*strs = append(*strs, s.ID, s.Lower, s.Upper)
	if r.Bool() {
		s.Rev = []uint64{0, 1 << 53, 1<<53 + 1, math.MaxUint64, math.MaxInt64 + 1}[r.Intn(5)]
	}
	for i := range s.Arr {
		s.Arr[i] = int32(r.Uint64())
	}
	switch r.Intn(3) {
	case 0:
	case 1:
		s.ByInt = map[int]string{}
	default:
		s.ByInt = map[int]string{}
		for i := r.Range(1, 3); i > 0; i-- {
			v := genStr(r)
			*strs = append(*strs, v)
			s.ByInt[int(genInt64(r))] = v
		}
	}
	if r.Bool() {
		s.Nested = map[string][]EvItem{}
		for i := r.Intn(3); i > 0; i-- {
			k := genStr(r)
			*strs = append(*strs, k)
			var items []EvItem // nil slice as a map VALUE of static type []EvItem: null <-> nil
			for j := r.Intn(3); j > 0; j-- {
				it := EvItem{Name: genStr(r), Qty: int(genInt64(r)), Price: genFloat(r)}
				*strs = append(*strs, it.Name)
				items = append(items, it)
			}
			s.Nested[k] = items
		}
	}
	if r.Bool() {
		v := genStr(r)
		*strs = append(*strs, v)
		p := &v
		s.PP = &p
	}
	if r.Bool() {
		s.Untyped = map[string][]any{}
		for i := r.Intn(3); i > 0; i-- {
			k := genStr(r)
			*strs = append(*strs, k)
			var l []any
			if r.Chance(0.8) {
				l = []any{}
				for j := r.Intn(4); j > 0; j-- {
					l = append(l, genNumTree(r, 1, strs))
				}
				us.walk(l, 0)
			}
			s.Untyped[k] = l
		}
	}
	for i := r.Intn(3); i > 0; i-- {
		s.Pairs = append(s.Pairs, [2]float64{genFloat(r), genFloat(r)})
	}
	if r.Bool() {
		s.Set = map[string]struct{}{}
		for i := r.Intn(3); i > 0; i-- {
			k := genStr(r)
			*strs = append(*strs, k)
			s.Set[k] = struct{}{}
		}
	}
	for i := r.Intn(3); i > 0; i-- {
		if r.Chance(0.3) {
			s.Ptrs = append(s.Ptrs, nil)
		} else {
			s.Ptrs = append(s.Ptrs, &EvBase{ID: genStr(r), Rev: r.Uint64()})
			*strs = append(*strs, s.Ptrs[len(s.Ptrs)-1].ID)
		}
	}
	if r.Bool() {
		s.IfaceIn.V = genNumTree(r, 1, strs)
		us.walk(s.IfaceIn.V, 0)
	}
	if r.Bool() {
		s.M2 = map[string]map[string]any{}
		for i := r.Intn(3); i > 0; i-- {
			k := genStr(r)
			*strs = append(*strs, k)
			var inner map[string]any
			if r.Chance(0.8) {
				inner = genTreeMap(r, 1, strs)
				if r.Bool() {
					inner[genStr(r)] = genNumTree(r, 0, strs)
				}
				us.walk(inner, 0)
			}
			s.M2[k] = inner
		}
	}
	return s
}

// genUntypedJSONVal returns a value of the second part of the JSON family and what it holds in untyped slots.
func genUntypedJSONVal(r *vlib.Rand) (val, untypedStats) {
	k := r.Intn(10)
	v, us := genUntypedJSONValK(r, k)
	v.again = func(r *vlib.Rand) val { w, _ := genUntypedJSONValK(r, k); return w }
	return v, us
}

func genUntypedJSONValK(r *vlib.Rand, k int) (val, untypedStats) {
	var strs []string
	var us untypedStats
	var v val
	switch k {
	case 0, 1, 2, 3:
		l := genLoose(r, 2, &strs, &us)
		v = jsonVal(l, strs...)
	case 4, 5:
		s := genShapes(r, &strs, &us)
		v = jsonVal(s, strs...)
	case 6, 7:
		// the command/event IS a map (schemaless events)
		var m map[string]any
		if r.Chance(0.95) {
			m = genTreeMap(r, 3, &strs)
			for i := r.Range(0, 3); i > 0; i-- {
				k := genStr(r)
				strs = append(strs, k)
				m[k] = genNumTree(r, 2, &strs)
			}
			us.walk(m, 0)
		}
		v = jsonVal(&m, strs...)
	case 8:
		var l []any
		if r.Chance(0.95) {
			l = []any{}
			for i := r.Range(0, 5); i > 0; i-- {
				l = append(l, genNumTree(r, 2, &strs))
			}
			us.walk(l, 0)
		}
		v = jsonVal(&l, strs...)
	default:
		// a bare interface value
		var a any = genNumTree(r, 2, &strs)
		us.walk(a, 0)
		v = jsonVal(&a, strs...)
	}
	v.desc = fmt.Sprintf("%T(%s)", v.v, descJSON(v.v))
	selfCheckJSON(v.v, v.fresh)
	return v, us
}

// descJSON describes a value by its Go-syntax representation without pointer addresses (stable across runs).
func descJSON(v any) string {
	b, err := json.Marshal(v)
	if err != nil {
		return fmt.Sprintf("%+v", v)
	}
	return string(b)
}

// firstDiff names the first place where two values differ, with the dynamic types on both sides (a number that came back as
// another Go type prints identically with %v). "" when reflect.DeepEqual would hold along the walked path.
func firstDiff(a, b reflect.Value, path string) (d string) {
	defer func() {
		if recover() != nil { // reflection over foreign unexported state: the description is optional
			d = ""
		}
	}()
	return firstDiffRec(a, b, path)
}

func firstDiffRec(a, b reflect.Value, path string) string {
	if !a.IsValid() || !b.IsValid() {
		if a.IsValid() != b.IsValid() {
			return fmt.Sprintf("at %s: %s vs %s", path, showVal(a), showVal(b))
		}
		return ""
	}
	if a.Type() != b.Type() {
		return fmt.Sprintf("at %s: sent %s, got %s", path, showVal(a), showVal(b))
	}
	switch a.Kind() {
	case reflect.Interface, reflect.Ptr:
		if a.IsNil() || b.IsNil() {
			if a.IsNil() != b.IsNil() {
				return fmt.Sprintf("at %s: sent %s, got %s", path, showVal(a), showVal(b))
			}
			return ""
		}
		return firstDiffRec(a.Elem(), b.Elem(), path)
	case reflect.Struct:
		for i := 0; i < a.NumField(); i++ {
			if d := firstDiffRec(a.Field(i), b.Field(i), path+"."+a.Type().Field(i).Name); d != "" {
				return d
			}
		}
		return ""
	case reflect.Slice, reflect.Array:
		if a.Kind() == reflect.Slice && (a.IsNil() != b.IsNil() || a.Len() != b.Len()) {
			return fmt.Sprintf("at %s: sent %s, got %s", path, showVal(a), showVal(b))
		}
		for i := 0; i < a.Len(); i++ {
			if d := firstDiffRec(a.Index(i), b.Index(i), fmt.Sprintf("%s[%d]", path, i)); d != "" {
				return d
			}
		}
		return ""
	case reflect.Map:
		if a.IsNil() != b.IsNil() || a.Len() != b.Len() {
			return fmt.Sprintf("at %s: sent %s, got %s", path, showVal(a), showVal(b))
		}
		for _, k := range a.MapKeys() {
			bv := b.MapIndex(k)
			if !bv.IsValid() {
				return fmt.Sprintf("at %s: key %s missing in the decoded value", path, clip(fmt.Sprintf("%#v", k.Interface()), 100))
			}
			if d := firstDiffRec(a.MapIndex(k), bv, fmt.Sprintf("%s[%s]", path, clip(fmt.Sprintf("%#v", k.Interface()), 60))); d != "" {
				return d
			}
		}
		return ""
	default:
		if a.CanInterface() && b.CanInterface() && !reflect.DeepEqual(a.Interface(), b.Interface()) {
			return fmt.Sprintf("at %s: sent %s, got %s", path, showVal(a), showVal(b))
		}
		return ""
	}
}

func showVal(v reflect.Value) string {
	if !v.IsValid() {
		return "nil"
	}
	if !v.CanInterface() {
		return v.Type().String()
	}
	return clip(fmt.Sprintf("%T(%#v)", v.Interface(), v.Interface()), 200)
}
