package c16

import (
	"fmt"
	"math"
	"reflect"
	"strings"
	"time"

	"github.com/ThreeDotsLabs/watermill/components/cqrs"
	"github.com/ThreeDotsLabs/watermill/message"
	gogoproto "github.com/gogo/protobuf/proto"
	gogotypes "github.com/gogo/protobuf/types"
	"google.golang.org/protobuf/proto"
	"google.golang.org/protobuf/types/known/anypb"
	"google.golang.org/protobuf/types/known/durationpb"
	"google.golang.org/protobuf/types/known/emptypb"
	"google.golang.org/protobuf/types/known/fieldmaskpb"
	"google.golang.org/protobuf/types/known/structpb"
	"google.golang.org/protobuf/types/known/timestamppb"
	"google.golang.org/protobuf/types/known/wrapperspb"

	"verifharness/vlib"
)

// ---------------------------------------------------------------------------------------------------------
// the JSON type family (shared with the reply class)

type EvScalar struct {
	S string  `json:"s"`
	I int64   `json:"i"`
	U uint32  `json:"u"`
	F float64 `json:"f"`
	B bool    `json:"b"`
}

type EvBytes struct {
	Data []byte  `json:"data"`
	Note *string `json:"note,omitempty"`
}

type EvItem struct {
	Name  string
	Qty   int
	Price float64
}

type EvNested struct {
	ID    string            `json:"id"`
	Items []EvItem          `json:"items"`
	Attrs map[string]string `json:"attrs"`
	Opt   *EvScalar         `json:"opt"`
	At    time.Time         `json:"at"`
}

// CmdNamed carries its own name (cqrs.NamedStruct).
type CmdNamed struct {
	Target string
	Count  int
}

func (CmdNamed) Name() string { return "c16/named command é\t\"x\"" }

type EvEmpty struct{}

func genFloat(r *vlib.Rand) float64 {
	switch r.Intn(8) {
	case 0:
		return 0
	case 1:
		return math.Copysign(0, -1)
	case 2:
		return float64(r.Range(-1000, 1000))
	case 3:
		return []float64{math.MaxFloat64, -math.MaxFloat64, math.SmallestNonzeroFloat64, 1e21, 1e-7, 0.1, 1 << 53}[r.Intn(7)]
	case 4:
		return r.Float()
	default:
		for {
			f := math.Float64frombits(r.Uint64())
			if !math.IsNaN(f) && !math.IsInf(f, 0) {
				return f
			}
		}
	}
}

func genInt64(r *vlib.Rand) int64 {
	switch r.Intn(5) {
	case 0:
		return 0
	case 1:
		return []int64{math.MaxInt64, math.MinInt64, -1, 1 << 53, 1<<53 + 1}[r.Intn(5)]
	default:
		return int64(r.Uint64())
	}
}

func genScalar(r *vlib.Rand) EvScalar {
	return EvScalar{S: genStr(r), I: genInt64(r), U: uint32(r.Uint64()), F: genFloat(r), B: r.Bool()}
}

// val is one generated value of the family with what the oracle needs to know about it.
type val struct {
	v     any                 // pointer to the value
	fresh func() any          // a new zero value of the same type (pointer)
	equal func(a, b any) bool // value equality on pointers
	desc  string
	zero  bool // carries nothing (zero value)
	strs  []string
	// what the value holds in untyped (interface{}) slots; JSON family only
	untyped untypedStats
	// covers, when set, is the relation demanded between the value and a NON-fresh target after Unmarshal ("" = holds);
	// nil: equal is demanded (targets.go)
	covers func(want, got any) string
	// again generates another value of (with high probability) the same Go type: content for pre-populated targets
	again func(r *vlib.Rand) val
	// diff, when set, describes how two values that are not equal differ (protobuf: proto.Equal and deterministic encodings)
	diff func(a, b any) string
	// pst: what a value of the protobuf schema families carries (protogen.go)
	pst   protoStats
	large bool
	// std: a google.golang.org/protobuf message handed to the deprecated gogo marshaler (gogoschema.go)
	std bool
	// gogoOnly: a message type that implements gogo's proto.Message only, no ProtoReflect (gogoonly.go)
	gogoOnly bool
}

func jsonVal[T any](v *T, strs ...string) val {
	var z T
	return val{
		v:      v,
		fresh:  func() any { return new(T) },
		equal:  func(a, b any) bool { return reflect.DeepEqual(a, b) },
		desc:   fmt.Sprintf("%T%+v", v, *v),
		zero:   reflect.DeepEqual(*v, z),
		strs:   strs,
		covers: coversJSON,
	}
}

// EvBlob carries a long text: payloads of a few KiB (buffer reuse inside a marshaler would show here).
type EvBlob struct {
	Text string `json:"text"`
	N    int    `json:"n"`
}

// genJSONVal draws from the whole JSON family: 16 of 100 KiB-sized blobs, of the rest 7 of 10 from the statically typed part
// below and 3 of 10 from the part with untyped slots and unusual shapes (untyped.go). Every value is first checked to be a
// fixed point of encoding/json itself.
func genJSONVal(r *vlib.Rand) val {
	if r.Chance(0.16) {
		// payloads of 1-6 KiB in sequence (buffer reuse inside a marshaler shows with held messages)
		n := []int{0, 900, 2500, 3100, 3600, 4000, 4300, 6000}[r.Intn(8)]
		b := EvBlob{Text: strings.Repeat(string(rune('a'+r.Intn(26))), n), N: r.Intn(1000)}
		v := jsonVal(&b)
		v.desc = fmt.Sprintf("*c16.EvBlob{Text: %d bytes, N: %d}", n, b.N)
		v.again = func(r *vlib.Rand) val { return jsonSized(r, r.Intn(3000)) }
		return v
	}
	if r.Chance(0.3) {
		v, us := genUntypedJSONVal(r)
		v.untyped = us
		return v
	}
	v := genTypedJSONVal(r)
	selfCheckJSON(v.v, v.fresh)
	return v
}

func genTypedJSONVal(r *vlib.Rand) val {
	k := r.Intn(6)
	v := genTypedJSONValK(r, k)
	v.again = func(r *vlib.Rand) val { return genTypedJSONValK(r, k) }
	return v
}

func genTypedJSONValK(r *vlib.Rand, k int) val {
	switch k {
	case 0:
		s := genScalar(r)
		return jsonVal(&s, s.S)
	case 1:
		b := EvBytes{Data: r.Payload(64)}
		strs := []string{}
		if r.Bool() {
			n := genStr(r)
			b.Note = &n
			strs = append(strs, n)
		}
		return jsonVal(&b, strs...)
	case 2, 3:
		n := EvNested{ID: genStr(r), At: time.Unix(int64(r.Intn(4_000_000_000)), int64(r.Intn(1_000_000_000))).UTC()}
		strs := []string{n.ID}
		switch r.Intn(3) {
		case 0: // nil slice
		case 1:
			n.Items = []EvItem{}
		default:
			for i := r.Range(1, 4); i > 0; i-- {
				it := EvItem{Name: genStr(r), Qty: int(genInt64(r)), Price: genFloat(r)}
				n.Items = append(n.Items, it)
				strs = append(strs, it.Name)
			}
		}
		switch r.Intn(3) {
		case 0: // nil map
		case 1:
			n.Attrs = map[string]string{}
		default:
			n.Attrs = genMeta(r)
			for k, v := range n.Attrs {
				strs = append(strs, k, v)
			}
		}
		if r.Bool() {
			s := genScalar(r)
			n.Opt = &s
			strs = append(strs, s.S)
		}
		return jsonVal(&n, strs...)
	case 4:
		c := CmdNamed{Target: genStr(r), Count: r.Range(-5, 5)}
		return jsonVal(&c, c.Target)
	default:
		if r.Chance(0.3) {
			return jsonVal(&EvEmpty{})
		}
		return jsonVal(&EvScalar{})
	}
}

// ---------------------------------------------------------------------------------------------------------
// protobuf families: well-known types of google.golang.org/protobuf and of gogo/protobuf

func genTree(r *vlib.Rand, depth int, strs *[]string) any {
	k := r.Intn(7)
	if depth <= 0 && k >= 5 {
		k = r.Intn(5)
	}
	switch k {
	case 0:
		return nil
	case 1:
		return r.Bool()
	case 2:
		return genFloat(r)
	case 3, 4:
		s := genStr(r)
		*strs = append(*strs, s)
		return s
	case 5:
		n := r.Intn(4)
		l := make([]any, 0, n)
		for i := 0; i < n; i++ {
			l = append(l, genTree(r, depth-1, strs))
		}
		return l
	default:
		return genTreeMap(r, depth-1, strs)
	}
}

func genTreeMap(r *vlib.Rand, depth int, strs *[]string) map[string]any {
	n := r.Intn(4)
	m := map[string]any{}
	for i := 0; i < n; i++ {
		k := genStr(r)
		*strs = append(*strs, k)
		m[k] = genTree(r, depth, strs)
	}
	return m
}

func protoVal(m proto.Message, strs ...string) val {
	return val{
		v:     m,
		fresh: func() any { return m.ProtoReflect().New().Interface() },
		// proto.Equal AND equal deterministic encodings (protogen.go)
		equal: func(a, b any) bool { return protoDiff(a.(proto.Message), b.(proto.Message)) == "" },
		diff:  func(a, b any) string { return protoDiff(a.(proto.Message), b.(proto.Message)) },
		desc:  fmt.Sprintf("%T{%v}", m, m),
		zero:  proto.Size(m) == 0,
		strs:  strs,
	}
}

func genProtoVal(r *vlib.Rand) val {
	k := r.Intn(13)
	v := genProtoValK(r, k)
	v.again = func(r *vlib.Rand) val { return genProtoValK(r, k) }
	return v
}

func genProtoValK(r *vlib.Rand, k int) val {
	switch k {
	case 0:
		s := genStr(r)
		return protoVal(wrapperspb.String(s), s)
	case 1:
		return protoVal(wrapperspb.Bytes(r.Payload(64)))
	case 2:
		return protoVal(wrapperspb.Int64(genInt64(r)))
	case 3:
		return protoVal(wrapperspb.UInt64(r.Uint64()))
	case 4:
		return protoVal(wrapperspb.Int32(int32(r.Uint64())))
	case 5:
		return protoVal(wrapperspb.Double(genFloat(r)))
	case 6:
		return protoVal(wrapperspb.Bool(r.Bool()))
	case 7:
		return protoVal(&timestamppb.Timestamp{Seconds: int64(r.Intn(4_000_000_000)) - 1_000_000_000, Nanos: int32(r.Intn(1_000_000_000))})
	case 8:
		return protoVal(&durationpb.Duration{Seconds: int64(r.Intn(2_000_000)) - 1_000_000, Nanos: int32(r.Intn(1000))})
	case 9:
		var strs []string
		s, err := structpb.NewStruct(genTreeMap(r, 2, &strs))
		if err != nil {
			panic(harnessBug("structpb.NewStruct: " + err.Error()))
		}
		return protoVal(s, strs...)
	case 10:
		var strs []string
		v, err := structpb.NewValue(genTree(r, 2, &strs))
		if err != nil {
			panic(harnessBug("structpb.NewValue: " + err.Error()))
		}
		return protoVal(v, strs...)
	case 11:
		fm := &fieldmaskpb.FieldMask{}
		for i := r.Intn(4); i > 0; i-- {
			fm.Paths = append(fm.Paths, genStr(r))
		}
		return protoVal(fm, fm.Paths...)
	default:
		if r.Chance(0.3) {
			return protoVal(&emptypb.Empty{})
		}
		s := genStr(r)
		a, err := anypb.New(wrapperspb.String(s))
		if err != nil {
			panic(harnessBug("anypb.New: " + err.Error()))
		}
		return protoVal(a, s)
	}
}

func gogoTree(t any) *gogotypes.Value {
	switch x := t.(type) {
	case nil:
		return &gogotypes.Value{Kind: &gogotypes.Value_NullValue{}}
	case bool:
		return &gogotypes.Value{Kind: &gogotypes.Value_BoolValue{BoolValue: x}}
	case float64:
		return &gogotypes.Value{Kind: &gogotypes.Value_NumberValue{NumberValue: x}}
	case string:
		return &gogotypes.Value{Kind: &gogotypes.Value_StringValue{StringValue: x}}
	case []any:
		l := &gogotypes.ListValue{}
		for _, e := range x {
			l.Values = append(l.Values, gogoTree(e))
		}
		return &gogotypes.Value{Kind: &gogotypes.Value_ListValue{ListValue: l}}
	case map[string]any:
		return &gogotypes.Value{Kind: &gogotypes.Value_StructValue{StructValue: gogoStruct(x)}}
	}
	panic(harnessBug(fmt.Sprintf("gogoTree: %T", t)))
}

func gogoStruct(m map[string]any) *gogotypes.Struct {
	s := &gogotypes.Struct{Fields: map[string]*gogotypes.Value{}}
	for k, v := range m {
		s.Fields[k] = gogoTree(v)
	}
	return s
}

func gogoVal(m gogoproto.Message, strs ...string) val {
	return val{
		v:     m,
		fresh: func() any { return reflect.New(reflect.TypeOf(m).Elem()).Interface() },
		equal: func(a, b any) bool { return gogoDiff(a.(gogoproto.Message), b.(gogoproto.Message), false) == "" },
		diff:  func(a, b any) string { return gogoDiff(a.(gogoproto.Message), b.(gogoproto.Message), false) },
		desc:  fmt.Sprintf("%T{%v}", m, m),
		zero:  gogoproto.Size(m) == 0,
		strs:  strs,
	}
}

func genGogoVal(r *vlib.Rand) val {
	k := r.Intn(14)
	v := genGogoValK(r, k)
	if v.again == nil { // (the std-family values bring their own)
		v.again = func(r *vlib.Rand) val { return genGogoValK(r, k) }
	}
	return v
}

func genGogoValK(r *vlib.Rand, k int) val {
	switch k {
	case 0:
		s := genStr(r)
		return gogoVal(&gogotypes.StringValue{Value: s}, s)
	case 1:
		return gogoVal(&gogotypes.BytesValue{Value: r.Payload(64)})
	case 2:
		return gogoVal(&gogotypes.Int64Value{Value: genInt64(r)})
	case 3:
		return gogoVal(&gogotypes.UInt32Value{Value: uint32(r.Uint64())})
	case 4:
		return gogoVal(&gogotypes.DoubleValue{Value: genFloat(r)})
	case 5:
		return gogoVal(&gogotypes.BoolValue{Value: r.Bool()})
	case 6:
		return gogoVal(&gogotypes.Timestamp{Seconds: int64(r.Intn(4_000_000_000)) - 1_000_000_000, Nanos: int32(r.Intn(1_000_000_000))})
	case 7:
		return gogoVal(&gogotypes.Duration{Seconds: int64(r.Intn(2_000_000)) - 1_000_000, Nanos: int32(r.Intn(1000))})
	case 8:
		var strs []string
		return gogoVal(gogoStruct(genTreeMap(r, 2, &strs)), strs...)
	case 9:
		fm := &gogotypes.FieldMask{}
		for i := r.Intn(4); i > 0; i-- {
			fm.Paths = append(fm.Paths, genStr(r))
		}
		return gogoVal(fm, fm.Paths...)
	case 10:
		if r.Chance(0.3) {
			return gogoVal(&gogotypes.Empty{})
		}
		var strs []string
		return gogoVal(gogoTree(genTree(r, 2, &strs)), strs...)
	case 12, 13:
		// message types only gogo can handle (no ProtoReflect): what the deprecated marshaler is kept for
		return genGogoOnly(r, r.Intn(nGogoOnlyKinds))
	default:
		// the deprecated marshaler documents itself as compatible with google.golang.org/protobuf messages
		// (fallback to ProtoMarshaler): values of the std family are Protobuf-serialisable values for it too.
		v := genProtoVal(r)
		v.desc = "std:" + v.desc
		v.std = true
		return v
	}
}

// ---------------------------------------------------------------------------------------------------------
// the round-trip law for one marshaler

var nameGens = []struct {
	id string
	f  func(v interface{}) string
}{
	{"default", nil},
	{"StructName", cqrs.StructName},
	{"FullyQualifiedStructName", cqrs.FullyQualifiedStructName},
	{"NamedStruct(StructName)", cqrs.NamedStruct(cqrs.StructName)},
	{"NamedStruct(FullyQualified)", cqrs.NamedStruct(cqrs.FullyQualifiedStructName)},
}

type mkMarshaler func(newUUID func() string, genName func(v interface{}) string, flag bool) cqrs.CommandEventMarshaler

// strVal makes the value of the family that carries just the string s (for the corpus sweep, strings.go).
// sized makes a value whose encoding is about n bytes long (for the size ladder).
func runCodec(e *vlib.Env, res *vlib.Result, kind string, gen func(r *vlib.Rand) val, strVal func(r *vlib.Rand, s string) val, sized func(r *vlib.Rand, n int) val, mk mkMarshaler, byValue bool, schemaClass ...bool) {
	schema := len(schemaClass) > 0 && schemaClass[0]
	const nRandom = 64
	// size ladder: a fixed run of encodings that grow through the usual small-buffer limits and shrink again, marshaled back to back
	// in the middle of the batch (all messages are held and decoded at the end): an encoder that keeps state between calls
	// (pooled / reused / pre-sized buffers) sees grow, keep, shrink and reuse in one sequence whatever the random draws are
	ladder := []int{900, 2500, 3100, 3600, 4000, 700, 3900, 120, 4300, 4090, 4097, 60, 9000, 1000, 0, 5000}
	const ladderAt = 24
	nVals := nRandom + len(ladder)
	sw := newSweeper(e, nRandom/4)
	var f feat
	var sigParts []any
	nonZero, viaCopy := 0, 0
	var ut untypedStats
	nUntypedNum := 0
	var pst protoStats
	nLarge, nUnkTop, nUnkNested, nStdLossy, nStdUnk, nStdUnkKept := 0, 0, 0, 0, 0, 0
	var samples []any
	// every marshaled message is also kept and decoded again after ALL values have been marshaled: the bytes handed out by
	// Marshal belong to the message and must not change when the marshaler is used again
	type heldMsg struct {
		m    cqrs.CommandEventMarshaler
		msg  *message.Message
		snap []byte
		v    val
	}
	var held []heldMsg
	tb := newTargetBook() // Unmarshal targets that are not fresh zero values (targets.go)
	h := newHostility(e, kind, mk)
	nShared, nGogoOnly, nGogoOnlyAfterFailed := 0, 0, 0
	hst := h
	defer func() {
		if res.Failed() {
			return
		}
		for _, h := range held {
			res.Events++
			if string(h.msg.Payload) != string(h.snap) {
				res.Fail("cqrs-payload-changed-later", "%s marshaler: the payload of a message returned by Marshal changed after later Marshal calls (value %s): was %s, is %s", kind, clip(h.v.desc, 200), showBytes(h.snap), showBytes(h.msg.Payload))
				return
			}
			out := h.v.fresh()
			if err := h.m.Unmarshal(h.msg, out); err != nil || !h.v.equal(h.v.v, out) {
				note := ""
				if n := hst.failedByType[reflect.TypeOf(h.v.v)]; n > 0 {
					note = fmt.Sprintf(" [it decoded to its value when it was marshaled; other operations aimed at %T that failed in this case: %d, so far in this process: %d]", h.v.v, n, procFailed(reflect.TypeOf(h.v.v)))
				}
				res.Fail("cqrs-roundtrip", "%s marshaler: a message kept while other values were marshaled no longer decodes to its value %s (err %v)%s", kind, clip(h.v.desc, 200), err, note)
				return
			}
		}
		res.Count("held_messages_decoded_after_all_marshals", len(held))
	}()
	for i := 0; i < nVals; i++ {
		var v val
		if i >= ladderAt && i < ladderAt+len(ladder) {
			v = sized(e.R, ladder[i-ladderAt])
		} else {
			j := i
			if i >= ladderAt {
				j = i - len(ladder)
			}
			if j%4 == 0 {
				v = strVal(e.R, sw.at(j/4))
			} else {
				v = gen(e.R)
			}
		}
		for _, s := range v.strs {
			f.addStr(s)
		}
		sigParts = append(sigParts, v.desc)
		if !v.zero {
			nonZero++
		}
		if v.untyped.numbers > 0 {
			nUntypedNum++
		}
		pst.add(v.pst)
		if v.large {
			nLarge++
		}
		if v.pst.unknownTop > 0 {
			nUnkTop++
		}
		if v.pst.unknownNested > 0 {
			nUnkNested++
		}
		ut.numbers += v.untyped.numbers
		ut.strings += v.untyped.strings
		ut.bools += v.untyped.bools
		ut.nils += v.untyped.nils
		ut.maps += v.untyped.maps
		ut.lists += v.untyped.lists
		if v.untyped.depth >= 2 {
			ut.depth++ // values whose untyped tree is at least 2 levels deep
		}
		ng := nameGens[e.R.Intn(len(nameGens))]
		genName, ngID := ng.f, ng.id
		if e.R.Chance(0.15) {
			custom := genStr(e.R) // any valid UTF-8, including the empty name
			f.addStr(custom)
			genName = func(v interface{}) string { return custom + fmt.Sprintf("%T", v) }
			if e.R.Chance(0.2) {
				genName = func(v interface{}) string { return custom }
			}
			ngID = "custom " + showStr(custom)
		}
		var newUUID func() string
		uuid := ""
		if e.R.Bool() {
			uuid = e.ID() + "-" + genStr(e.R)
			f.addStr(uuid)
			newUUID = func() string { return uuid }
		}
		m := mk(newUUID, genName, e.R.Bool())
		if h.r.Intn(5) == 0 {
			// the one marshaler value that is kept for the whole case (and has seen all other operations made through it)
			m, ngID = h.shared, "default (the marshaler value kept for the whole case)"
			nShared++
		}
		in := v.v
		if byValue && e.R.Bool() {
			in = reflect.ValueOf(v.v).Elem().Interface() // JSON accepts non-pointer values too
		}
		hv := &valueHistory{} // other operations made around this value's round trip (history.go)
		vt := reflect.TypeOf(v.v)
		// failAs: attribute=true for the checks the baseline round trip made too (Marshal, name, Unmarshal into a fresh target): when the
		// baseline held, their failure is a dependence on the operations made in between
		failAs := func(attribute bool, clause, format string, args ...any) {
			text := fmt.Sprintf(format, args...)
			if attribute {
				clause, text = hv.attribute(clause, text)
			}
			if n := procFailed(vt); n > 0 && !hv.baselineOK {
				text += fmt.Sprintf(" [other operations aimed at %v that failed so far in this process: %d, of them in this case: %d]", vt, n, h.failedByType[vt])
			}
			res.Fail(clause, "%s marshaler, name generator %s, value %s: %s", kind, ngID, clip(v.desc, 600), text)
			res.Witness = map[string]any{"marshaler": kind, "name_generator": ngID, "value": clip(v.desc, 4000), "other_operations_around_this_value": hv.log}
		}
		fail := func(clause, format string, args ...any) { failAs(true, clause, format, args...) }
		failTarget := func(clause, format string, args ...any) { failAs(false, clause, format, args...) }
		gotName := ""
		// marshalStep: Marshal + name law. ok=false: failed (reported); skip: the known lossy encoding of a std value (not judged).
		marshalStep := func(count bool) (msg *message.Message, ok, skip bool) {
			var err error
			var wantName string
			if p := guard(func() {
				msg, err = m.Marshal(in)
				if err == nil && msg != nil {
					wantName, gotName = m.Name(in), m.NameFromMessage(msg)
				}
			}); p != "" {
				fail("panic", "Marshal/Name panicked: %s", p)
				return nil, false, false
			}
			res.Events++
			if err != nil || msg == nil {
				fail("cqrs-marshal-error", "Marshal returned (%v, %v) for a serialisable value", msg, err)
				return nil, false, false
			}
			res.Events++
			if gotName != wantName {
				fail("cqrs-name", "NameFromMessage = %s, Name(value) = %s (metadata %s)", showStr(gotName), showStr(wantName), showMeta(msg.Metadata))
				return nil, false, false
			}
			if v.std {
				// KNOWN DEFECT of the unchanged tree (reported, not judged; see gogoschema.go): the deprecated marshaler encodes a
				// google.golang.org/protobuf message with gogo's struct-tag reflection, which knows neither the unknown-field store nor the
				// extension store of such a message nor proto3 `optional` (a present but empty bytes field is skipped) - unless gogo fails
				// (oneof in use) and Marshal falls back to ProtoMarshaler. When the payload is exactly the encoding of v without these parts,
				// the value is counted and skipped.
				carries := v.pst.unknownNodes > 0 || v.pst.extensions > 0
				if carries && count {
					nStdUnk++
				}
				if stdMarshalLossy(v.v.(proto.Message), msg.Payload) {
					if count {
						nStdLossy++
					}
					return msg, true, true
				}
				if carries && count {
					nStdUnkKept++
				}
			}
			held = append(held, heldMsg{m: m, msg: msg, snap: append([]byte(nil), msg.Payload...), v: v})
			return msg, true, false
		}
		// unmarshalStep: Unmarshal into a fresh zero value + identity
		unmarshalStep := func(msg *message.Message, rr *vlib.Rand) bool {
			wire := msg
			if rr.Bool() {
				wire = msg.Copy() // what a subscriber gets from a Pub/Sub
				viaCopy++
			}
			out := v.fresh()
			var err error
			if p := guard(func() { err = m.Unmarshal(wire, out) }); p != "" {
				fail("panic", "Unmarshal panicked: %s (payload %s)", p, showBytes(msg.Payload))
				return false
			}
			res.Events++
			if err != nil {
				fail("cqrs-unmarshal-error", "Unmarshal(Marshal(v)) failed: %v (payload %s)", err, showBytes(msg.Payload))
				return false
			}
			res.Events++
			if !v.equal(v.v, out) {
				diff := ""
				if byValue {
					diff = firstDiff(reflect.ValueOf(v.v), reflect.ValueOf(out), "v") + "; "
				}
				if v.diff != nil {
					diff = v.diff(v.v, out) + "; "
				}
				got := ""
				if !v.large {
					got = clip(fmt.Sprintf("%+v", reflect.ValueOf(out).Elem().Interface()), 600)
				}
				fail("cqrs-roundtrip", "%sUnmarshal(Marshal(v)) = %s differs from v (payload %s)", diff, got, showBytes(msg.Payload))
				return false
			}
			return true
		}
		// ROUND TRIPS ARE INDEPENDENT OF WHAT THE MARSHALER SAW BEFORE (history.go): a baseline round trip, then operations that are
		// expected to fail (bad payloads, refused targets, refused values; through this and other marshaler values), then the checked program
		pre, mid := h.plan(v)
		if pre || mid {
			h.values++
			bmsg, ok, skip := marshalStep(false)
			if !ok {
				break
			}
			if !skip {
				if !unmarshalStep(bmsg, h.r) {
					break
				}
				hv.baselineOK = true
				h.baselines++
			}
			if pre {
				h.ops(m, v, bmsg, hv)
			}
		}
		if h.failedByType[vt] > 0 {
			h.afterFailedOnType++
			if v.gogoOnly {
				nGogoOnlyAfterFailed++
			}
		}
		if v.gogoOnly {
			nGogoOnly++
		}
		msg, ok, skip := marshalStep(true)
		if !ok {
			break
		}
		if skip {
			continue
		}
		if mid {
			h.mids++
			h.ops(m, v, msg, hv)
		}
		if !unmarshalStep(msg, e.R) {
			break
		}
		h.remember(v, msg)
		// the same message into targets that already carry data: reused between calls, pre-populated
		// (large values - 100 KiB and more - only make the plain round trip and the held-message round trip)
		if !v.large && !tb.run(e.R, res, m, msg, v, failTarget) {
			break
		}
		if len(samples) < 3 && !v.zero {
			samples = append(samples, map[string]any{"value": clip(v.desc, 300), "name_generator": ngID, "name": gotName, "payload_bytes": len(msg.Payload)})
		}
	}
	res.Count("inputs", nVals)
	res.Count("values_nonzero", nonZero)
	res.Count("unmarshal_from_copy", viaCopy)
	res.Count("corpus_sweep_strings", sw.used)
	res.Count("size_ladder_values", len(ladder))
	tb.report(res)
	h.report(res)
	res.Count("round_trips_through_marshaler_value_kept_for_the_case", nShared)
	if byValue { // the JSON family
		res.Count("values_with_numbers_in_untyped_slots", nUntypedNum)
		res.Count("untyped_slot_numbers", ut.numbers)
		res.Count("untyped_slot_strings", ut.strings)
		res.Count("untyped_slot_bools", ut.bools)
		res.Count("untyped_slot_nils", ut.nils)
		res.Count("untyped_slot_maps", ut.maps)
		res.Count("untyped_slot_lists", ut.lists)
		res.Count("values_with_untyped_depth_ge_2", ut.depth)
	}
	f.report(res)
	res.NonTrivial = res.Failed() || (nonZero > 0 && f.multibyte && f.control && h.afterFailedOnType > 0)
	if schema {
		reportProtoStats(res, pst)
		res.Count("values_with_unknown_fields_at_top_level", nUnkTop)
		res.Count("values_with_unknown_fields_in_nested_messages", nUnkNested)
		res.Count("values_large_100KiB_to_12MiB", nLarge)
		if strings.Contains(kind, "gogo") {
			res.Count("gogo_std_values_with_unknown_or_extension_fields", nStdUnk)
			res.Count("gogo_std_values_with_unknown_or_extension_fields_complete_in_payload_judged", nStdUnkKept)
		}
		// the schema classes are about presence, oneofs and unknown fields: a batch without them exercised nothing new
		res.NonTrivial = res.Failed() || (res.NonTrivial && nUnkTop > 0 && nUnkNested > 0 && pst.oneofArm > 0 && pst.oneofUnset > 0 && pst.presentZero > 0)
	}
	if strings.Contains(kind, "gogo") {
		res.Count("gogo_only_type_values", nGogoOnly)
		res.Count("gogo_only_type_values_checked_after_failed_op_on_their_go_type", nGogoOnlyAfterFailed)
		res.Count("gogo_std_values_unknown_extension_or_empty_optional_bytes_fields_lost_in_gogo_marshal_KNOWN_DEFECT_not_judged", nStdLossy)
	}
	res.Sig = vlib.Sig(kind, sigParts, h.trace)
	if !res.Failed() {
		res.Sample = map[string]any{"marshaler": kind, "values": nVals, "examples": samples}
	}
}

func clip(s string, n int) string {
	if len(s) > n {
		return fmt.Sprintf("%+q...(%d bytes)", s[:n], len(s))
	}
	return s
}

func runJSON(e *vlib.Env, res *vlib.Result) {
	runCodec(e, res, "JSONMarshaler", genJSONVal, jsonStrVal, jsonSized, func(u func() string, g func(v interface{}) string, _ bool) cqrs.CommandEventMarshaler {
		return cqrs.JSONMarshaler{NewUUID: u, GenerateName: g}
	}, true)
}

func runProto(e *vlib.Env, res *vlib.Result) {
	runCodec(e, res, "ProtoMarshaler", genProtoVal, protoStrVal, protoSized, func(u func() string, g func(v interface{}) string, _ bool) cqrs.CommandEventMarshaler {
		return cqrs.ProtoMarshaler{NewUUID: u, GenerateName: g}
	}, false)
}

func runGogo(e *vlib.Env, res *vlib.Result) {
	runCodec(e, res, "ProtobufMarshaler(gogo)", genGogoVal, gogoStrVal, gogoSized, func(u func() string, g func(v interface{}) string, _ bool) cqrs.CommandEventMarshaler {
		return cqrs.ProtobufMarshaler{NewUUID: u, GenerateName: g}
	}, false)
}

// string carriers of the three families: the text sits in a typed string field, a map key and value, an untyped slot, a list
func jsonStrVal(r *vlib.Rand, s string) val {
	k := r.Intn(5)
	v := jsonStrValK(r, s, k)
	v.again = func(r *vlib.Rand) val { return jsonStrValK(r, genStr(r), k) }
	return v
}

func jsonStrValK(r *vlib.Rand, s string, k int) val {
	var v val
	switch k {
	case 0:
		v = jsonVal(&EvScalar{S: s, I: 1}, s)
	case 1:
		v = jsonVal(&EvNested{ID: s, Attrs: map[string]string{s: s}, Items: []EvItem{{Name: s}}, At: time.Unix(0, 0).UTC()}, s)
	case 2:
		l := &EvLoose{ID: s, Value: s, Attrs: map[string]any{s: s}, List: []any{s, []any{s}}}
		v = jsonVal(l, s)
		v.desc = fmt.Sprintf("%T(%s)", l, descJSON(l))
	case 3:
		m := map[string]any{s: s, "k": map[string]any{s: []any{s}}}
		v = jsonVal(&m, s)
	default:
		v = jsonVal(&s, s) // the value is a bare string
	}
	selfCheckJSON(v.v, v.fresh)
	return v
}

func protoStrVal(r *vlib.Rand, s string) val {
	k := r.Intn(4)
	v := protoStrValK(r, s, k)
	v.again = func(r *vlib.Rand) val { return protoStrValK(r, genStr(r), k) }
	return v
}

func protoStrValK(r *vlib.Rand, s string, k int) val {
	switch k {
	case 0:
		return protoVal(wrapperspb.String(s), s)
	case 1:
		st, err := structpb.NewStruct(map[string]any{s: s, "l": []any{s}})
		if err != nil {
			panic(harnessBug("structpb.NewStruct: " + err.Error()))
		}
		return protoVal(st, s)
	case 2:
		return protoVal(&fieldmaskpb.FieldMask{Paths: []string{s, s}}, s)
	default:
		a, err := anypb.New(wrapperspb.String(s))
		if err != nil {
			panic(harnessBug("anypb.New: " + err.Error()))
		}
		return protoVal(a, s)
	}
}

func gogoStrVal(r *vlib.Rand, s string) val {
	k := r.Intn(5)
	v := gogoStrValK(r, s, k)
	if v.again == nil {
		v.again = func(r *vlib.Rand) val { return gogoStrValK(r, genStr(r), k) }
	}
	return v
}

func gogoStrValK(r *vlib.Rand, s string, k int) val {
	switch k {
	case 0:
		return gogoVal(&gogotypes.StringValue{Value: s}, s)
	case 1:
		return gogoVal(gogoStruct(map[string]any{s: s, "l": []any{s}}), s)
	case 2:
		return gogoVal(&gogotypes.FieldMask{Paths: []string{s, s}}, s)
	case 3:
		return gogoOnlyStrVal(r, s)
	default:
		v := protoStrVal(r, s)
		v.desc = "std:" + v.desc
		v.std = true
		return v
	}
}

// values of a given encoded size (size ladder)
func jsonSized(r *vlib.Rand, n int) val {
	b := EvBlob{Text: strings.Repeat(string(rune('a'+r.Intn(26))), n), N: r.Intn(1000)}
	v := jsonVal(&b)
	v.desc = fmt.Sprintf("*c16.EvBlob{Text: %d bytes, N: %d}", n, b.N)
	v.again = func(r *vlib.Rand) val { return jsonSized(r, r.Intn(3000)) }
	return v
}

func protoSized(r *vlib.Rand, n int) val {
	again := func(r *vlib.Rand) val { return protoSized(r, r.Intn(3000)) }
	if r.Bool() {
		v := protoVal(wrapperspb.Bytes(r.Bytes(n)))
		v.desc = fmt.Sprintf("*wrapperspb.BytesValue{%d bytes}", n)
		v.again = again
		return v
	}
	v := protoVal(wrapperspb.String(strings.Repeat(string(rune('a'+r.Intn(26))), n)))
	v.desc = fmt.Sprintf("*wrapperspb.StringValue{%d bytes}", n)
	v.again = again
	return v
}

func gogoSized(r *vlib.Rand, n int) val {
	switch r.Intn(3) {
	case 0:
		return gogoOnlySized(r, n)
	case 1:
		v := gogoVal(&gogotypes.BytesValue{Value: r.Bytes(n)})
		v.desc = fmt.Sprintf("*types.BytesValue{%d bytes}", n)
		v.again = func(r *vlib.Rand) val { return gogoSized(r, r.Intn(3000)) }
		return v
	}
	v := protoSized(r, n)
	v.desc = "std:" + v.desc
	v.std = true
	return v
}
