package c16

import (
	"math"
	"time"
	"fmt"
	"testing"

	"github.com/ThreeDotsLabs/watermill/components/cqrs"
	gogoproto "github.com/gogo/protobuf/proto"
	gogotypes "github.com/gogo/protobuf/types"
	"google.golang.org/protobuf/proto"
	"google.golang.org/protobuf/types/known/wrapperspb"
	"google.golang.org/protobuf/types/known/structpb"
	"google.golang.org/protobuf/types/descriptorpb"

	"verifharness/props/c16/c16pb"
	"verifharness/vlib"
)

func TestScratchGogoStd(t *testing.T) {
	unk := []byte{0xc0, 0x3e, 0x07}
	mk := func(m proto.Message) proto.Message { m.ProtoReflect().SetUnknown(unk); return m }
	vals := map[string]proto.Message{
		"string+unk": mk(wrapperspb.String("x")),
		"event plain+unk": mk(&c16pb.Event{Id: "a", Rs: []string{"x"}, Mss: map[string]string{"a": "b"}}),
		"event oneof+unk": mk(&c16pb.Event{Id: "a", Choice: &c16pb.Event_CS{CS: "q"}}),
		"event opt+unk": mk(&c16pb.Event{Id: "a", OptS: proto.String("")}),
		"event opt": &c16pb.Event{Id: "a", OptS: proto.String(""), OptI: proto.Int64(0)},
		"event oneof": &c16pb.Event{Id: "a", Choice: &c16pb.Event_CS{CS: "q"}},
		"event nested unk": &c16pb.Event{Id: "a", Leaf: mk(&c16pb.Leaf{Name: "x"}).(*c16pb.Leaf)},
		"value+unk": mk(structpb.NewStringValue("x")),
		"legacy": &c16pb.Legacy{Id: proto.String("x"), Count: proto.Int32(0), Extra: &c16pb.Legacy_Extra{Note: proto.String("")}},
		"legacy+unk": mk(&c16pb.Legacy{Id: proto.String("x"), Count: proto.Int32(0)}),
		"desc": &descriptorpb.FileDescriptorProto{Name: proto.String("")},
	}
	lx := &c16pb.Legacy{Id: proto.String("x")}
	proto.SetExtension(lx, c16pb.E_ExtNote, "note")
	vals["legacy ext"] = lx
	m := cqrs.ProtobufMarshaler{}
	for name, v := range vals {
		var gerr error
		func() {
			defer func() { if r := recover(); r != nil { gerr = fmt.Errorf("panic") } }()
			_, gerr = gogoproto.Marshal(v.(gogoproto.Message))
		}()
		msg, err := m.Marshal(v)
		if err != nil {
			fmt.Println(name, "MARSHAL ERR", err)
			continue
		}
		out := v.ProtoReflect().New().Interface()
		var gogoUErr error
		func() {
			defer func() { if r := recover(); r != nil { gogoUErr = fmt.Errorf("panic") } }()
			gogoUErr = gogoproto.Unmarshal(msg.Payload, out.(gogoproto.Message))
		}()
		out = v.ProtoReflect().New().Interface()
		err = m.Unmarshal(msg, out)
		fmt.Printf("%-20s gogoMarshalErr=%v gogoUnmarshalErr=%v unmarshalErr=%v diff=%s\n", name, gerr != nil, gogoUErr != nil, err, protoDiff(v, out))
	}
}

func TestScratchGogoNative(t *testing.T) {
	m := cqrs.ProtobufMarshaler{}
	v := &gogotypes.StringValue{Value: "x", XXX_unrecognized: []byte{0xc0, 0x3e, 0x07}}
	msg, err := m.Marshal(v)
	out := &gogotypes.StringValue{}
	err2 := m.Unmarshal(msg, out)
	fmt.Println(err, err2, v.Equal(out), gogoproto.Equal(v, out), out.XXX_unrecognized)
	s := &gogotypes.Struct{Fields: map[string]*gogotypes.Value{"a": {Kind: &gogotypes.Value_StringValue{StringValue: "x"}, XXX_unrecognized: []byte{0xc0, 0x3e, 0x07}}}}
	msg, err = m.Marshal(s)
	out2 := &gogotypes.Struct{}
	err2 = m.Unmarshal(msg, out2)
	fmt.Println(err, err2, s.Equal(out2), gogoproto.Equal(s, out2), out2)
}

func TestScratchGen(t *testing.T) {
	r := vlib.NewRand(5, "C16", 1)
	for i := 0; i < 2000; i++ {
		g := newPgen(r)
		var m proto.Message
		switch i % 4 {
		case 0:
			m = &c16pb.Event{}
		case 1:
			m = &c16pb.Legacy{}
		case 2:
			m = &structpb.Value{}
		default:
			m = &descriptorpb.FileDescriptorProto{}
		}
		g.fill(m.ProtoReflect(), 3)
		g.goShapes(m.ProtoReflect())
		g.attachUnknown(m.ProtoReflect(), r.Intn(5))
		selfCheckProto(m)
		if i < 8 {
			fmt.Println(proto.Size(m), g.st)
		}
	}
}

func TestScratchTime(t *testing.T) {
	for _, cls := range []int{8, 9} {
		var tot, max time.Duration
		for i := 0; i < 16; i++ {
			idx := cls + 10*i
			e := &vlib.Env{Prop: "C16", Tier: "quick", Seed: 1, Idx: idx, R: vlib.NewRand(1, "C16", idx)}
			t0 := time.Now()
			res := run(e)
			d := time.Since(t0)
			tot += d
			if d > max {
				max = d
			}
			if res.Failed() {
				fmt.Println("FAILED", idx, res.Clause, res.Reason[:min(len(res.Reason), 600)])
			}
		}
		fmt.Println("class", cls, "total", tot, "max", max)
	}
}

func TestScratchKinds(t *testing.T) {
	r := vlib.NewRand(1, "C16", 8)
	type agg struct{ n int; gen, rt time.Duration; bytes int }
	m := map[string]*agg{}
	mar := cqrs.ProtoMarshaler{}
	do := func(kind string, f func() val) {
		t0 := time.Now()
		v := f()
		t1 := time.Now()
		msg, _ := mar.Marshal(v.v)
		for i := 0; i < 4; i++ {
			out := v.fresh()
			mar.Unmarshal(msg, out)
			if !v.equal(v.v, out) { panic("x") }
		}
		t2 := time.Now()
		a := m[kind]
		if a == nil { a = &agg{}; m[kind] = a }
		a.n++; a.gen += t1.Sub(t0); a.rt += t2.Sub(t1); a.bytes += len(msg.Payload)
	}
	for i := 0; i < 300; i++ {
		do("event", func() val { return genSchemaOfType(r, &c16pb.Event{}, 3) })
		do("legacy", func() val { return genSchemaOfType(r, &c16pb.Legacy{}, 3) })
		do("richer", func() val { return genFromRicher(r) })
		do("wkt", func() val { return genSchemaOfType(r, schemaWKTs[r.Intn(len(schemaWKTs))], 3) })
		do("desc", func() val { return genSchemaOfType(r, schemaDescTypes[r.Intn(len(schemaDescTypes))], 3) })
		do("real", func() val { return genRealDescriptor(r, false) })
		do("str", func() val { return schemaStrVal(r, genStr(r)) })
		do("sized", func() val { return schemaSized(r, 4000) })
		if i%10 == 0 { do("large", func() val { return genLargeSchemaVal(r) }) }
	}
	for k, a := range m {
		fmt.Printf("%-8s n=%d gen=%v/val rt=%v/val bytes=%d\n", k, a.n, a.gen/time.Duration(a.n), a.rt/time.Duration(a.n), a.bytes/a.n)
	}
}

func TestScratchLossy(t *testing.T) {
	v := wrapperspb.Double(math.Copysign(0, -1))
	v.ProtoReflect().SetUnknown([]byte{0xc0, 0x3e, 0x07})
	m := cqrs.ProtobufMarshaler{}
	msg, _ := m.Marshal(v)
	fmt.Printf("payload %x\n", msg.Payload)
	got := &wrapperspb.DoubleValue{}
	proto.Unmarshal(msg.Payload, got)
	c := proto.Clone(v)
	c.ProtoReflect().SetUnknown(nil)
	fmt.Println("clone diff:", protoDiff(c, got))
	fmt.Printf("det clone %x det got %x\n", detBytes(c), detBytes(got))
}
