package c16

import (
	"bytes"
	"crypto/sha256"
	"fmt"
	"math"
	"reflect"
	"sort"
	"strings"

	"github.com/ThreeDotsLabs/watermill/components/cqrs"
	gogoproto "github.com/gogo/protobuf/proto"
	gogotypes "github.com/gogo/protobuf/types"
	"google.golang.org/protobuf/encoding/protowire"

	"verifharness/vlib"
)

// ---------------------------------------------------------------------------------------------------------
// class cqrs/gogo-schema: the deprecated gogo ProtobufMarshaler with
//
//   (a) values of gogo-generated types (github.com/gogo/protobuf/types) as completely as the std family: the oneof of Value in every arm
//       and unset, unknown fields (XXX_unrecognized) at the top level and in nested messages, NaN/Inf/-0, nil vs empty maps/lists/bytes;
//   (b) google.golang.org/protobuf messages of the schema family (schema.go), which the marshaler documents itself compatible with
//       ("backward and forward compatible with ProtoMarshaler"; fallback to ProtoMarshaler when gogo fails).
//
// KNOWN DEFECT of the unchanged tree in (b), reported and carved out of the verdict (runCodec): gogo's Marshal encodes a
// google.golang.org/protobuf message through struct-tag reflection and silently leaves out what that message keeps in its
// unknown-field store and its extension store. Only when gogo fails (it panics on a populated oneof of such a message) Marshal falls
// back to ProtoMarshaler and the payload is complete. Such a value is judged only when the payload carries it completely.

// gogoDet is a deterministic, bit-exact rendering of a gogo message tree (gogo's own deterministic mode is refused by types with a
// generated Marshal method): fields in declaration order, map keys sorted, floats by their IEEE bits, bytes in hex (nil and empty
// coincide, as on the wire), oneof wrappers by type, XXX_unrecognized verbatim. Two messages of one type have the same rendering iff
// they have the same field values and the same unknown bytes (-0 of a scalar without presence is rendered as +0, see below).
func gogoDet(m gogoproto.Message) []byte {
	var b bytes.Buffer
	gogoCanon(&b, reflect.ValueOf(m))
	return b.Bytes()
}

func gogoCanon(b *bytes.Buffer, v reflect.Value) {
	switch v.Kind() {
	case reflect.Pointer, reflect.Interface:
		if v.IsNil() {
			b.WriteString("nil")
			return
		}
		if v.Kind() == reflect.Interface {
			b.WriteString(v.Elem().Type().String())
		}
		b.WriteByte('&')
		gogoCanon(b, v.Elem())
	case reflect.Struct:
		b.WriteByte('{')
		for i := 0; i < v.NumField(); i++ {
			f := v.Type().Field(i)
			if !f.IsExported() || f.Name == "XXX_NoUnkeyedLiteral" || f.Name == "XXX_sizecache" {
				continue
			}
			b.WriteString(f.Name)
			b.WriteByte(':')
			if fv := v.Field(i); (fv.Kind() == reflect.Float64 || fv.Kind() == reflect.Float32) && fv.Float() == 0 && !strings.Contains(v.Type().Name(), "_") {
				// a proto3 scalar without presence (not a oneof wrapper, whose type name is Msg_Arm): gogo's generated code does not
				// encode it when `m.Value != 0` is false, which holds for -0 too; -0 and +0 are one value of this family
				gogoCanon(b, reflect.Zero(fv.Type()))
			} else {
				gogoCanon(b, fv)
			}
			b.WriteByte(';')
		}
		b.WriteByte('}')
	case reflect.Map:
		keys := v.MapKeys()
		sort.Slice(keys, func(i, j int) bool { return keys[i].String() < keys[j].String() })
		b.WriteString("map[")
		for _, k := range keys {
			fmt.Fprintf(b, "%q=", k.String())
			gogoCanon(b, v.MapIndex(k))
			b.WriteByte(',')
		}
		b.WriteByte(']')
	case reflect.Slice:
		if v.Type().Elem().Kind() == reflect.Uint8 {
			fmt.Fprintf(b, "x%x", v.Bytes())
			return
		}
		b.WriteByte('[')
		for i := 0; i < v.Len(); i++ {
			gogoCanon(b, v.Index(i))
			b.WriteByte(',')
		}
		b.WriteByte(']')
	case reflect.Float64:
		fmt.Fprintf(b, "f64:%016x", math.Float64bits(v.Float()))
	case reflect.Float32:
		fmt.Fprintf(b, "f32:%08x", math.Float32bits(float32(v.Float())))
	case reflect.String:
		fmt.Fprintf(b, "%q", v.String())
	case reflect.Bool:
		fmt.Fprintf(b, "%v", v.Bool())
	case reflect.Int32, reflect.Int64, reflect.Int:
		fmt.Fprintf(b, "%d", v.Int())
	case reflect.Uint32, reflect.Uint64:
		fmt.Fprintf(b, "%d", v.Uint())
	default:
		panic(harnessBug("gogoCanon: kind " + v.Kind().String()))
	}
}

// gogoDiff: generated Equal / gogoproto.Equal AND equal deterministic encodings. With hasNaN the Equal methods are not consulted: they
// compare floats with ==, so a value holding a NaN is not even equal to itself; its identity is judged by the encoding alone.
func gogoDiff(a, b gogoproto.Message, hasNaN bool) string {
	if reflect.TypeOf(a) != reflect.TypeOf(b) {
		return fmt.Sprintf("types differ: %T vs %T", a, b)
	}
	eq := true
	if !hasNaN {
		if e, ok := a.(interface{ Equal(that interface{}) bool }); ok && !e.Equal(b) {
			eq = false
		}
		if !gogoproto.Equal(a, b) {
			eq = false
		}
	}
	da, db := gogoDet(a), gogoDet(b)
	if eq && bytes.Equal(da, db) {
		return ""
	}
	return fmt.Sprintf("Equal=%v, canonical renderings equal=%v (%s vs %s)", eq, bytes.Equal(da, db), clip(string(da), 400), clip(string(db), 400))
}

func selfCheckGogo(m gogoproto.Message, hasNaN bool) {
	b, err := gogoproto.Marshal(m)
	if err != nil {
		panic(harnessBug(fmt.Sprintf("generated %T does not marshal: %v", m, err)))
	}
	out := reflect.New(reflect.TypeOf(m).Elem()).Interface().(gogoproto.Message)
	if err := gogoproto.Unmarshal(b, out); err != nil {
		panic(harnessBug(fmt.Sprintf("generated %T does not unmarshal: %v", m, err)))
	}
	if d := gogoDiff(m, out, hasNaN); d != "" {
		panic(harnessBug(fmt.Sprintf("generated %T is not a fixed point of gogo/protobuf: %s", m, d)))
	}
}

// ggen builds gogo values; it shares the scalar generators and the unknown-field generator with pgen.
type ggen struct {
	*pgen
	unkProb float64
	nodes   []any // message nodes of the tree, top first
}

func (g *ggen) node(m any) { g.nodes = append(g.nodes, m); g.st.nodes++ }

// all gogo types used here declare only field numbers <= 6
func (g *ggen) unknown() []byte {
	return g.rawUnknown(func(n protowire.Number) bool { return n <= 6 }, nil, 2)
}

func setXXX(m any, raw []byte) {
	reflect.ValueOf(m).Elem().FieldByName("XXX_unrecognized").SetBytes(raw)
}

func getXXX(m any) []byte {
	return reflect.ValueOf(m).Elem().FieldByName("XXX_unrecognized").Bytes()
}

// value builds a Value; arm: 0 unset, 1..6 the arms in field order, -1 random.
func (g *ggen) value(depth, arm int) *gogotypes.Value {
	v := &gogotypes.Value{}
	g.node(v)
	if arm < 0 {
		arm = g.r.Intn(7)
		if depth <= 0 && arm >= 5 {
			arm = g.r.Intn(5)
		}
	}
	if arm == 0 {
		g.st.oneofUnset++
		return v
	}
	g.st.oneofArm++
	switch arm {
	case 1:
		v.Kind = &gogotypes.Value_NullValue{}
	case 2:
		v.Kind = &gogotypes.Value_NumberValue{NumberValue: g.double()}
		if v.GetNumberValue() == 0 {
			g.st.presentZero++
		}
	case 3:
		s := ""
		if !g.r.Chance(0.2) {
			s = g.str()
		} else {
			g.st.presentZero++
		}
		v.Kind = &gogotypes.Value_StringValue{StringValue: s}
	case 4:
		b := g.r.Bool()
		if !b {
			g.st.presentZero++
		}
		v.Kind = &gogotypes.Value_BoolValue{BoolValue: b}
	case 5:
		v.Kind = &gogotypes.Value_StructValue{StructValue: g.structV(depth - 1)}
	default:
		v.Kind = &gogotypes.Value_ListValue{ListValue: g.list(depth - 1)}
	}
	return v
}

func (g *ggen) structV(depth int) *gogotypes.Struct {
	s := &gogotypes.Struct{}
	g.node(s)
	switch g.r.Intn(5) {
	case 0: // nil map
	case 1:
		s.Fields = map[string]*gogotypes.Value{}
		g.st.emptyNonNilMap++
	default:
		s.Fields = map[string]*gogotypes.Value{}
		for n := g.r.Range(1, 3); n > 0; n-- {
			k := ""
			if !g.r.Chance(0.2) {
				k = g.str()
			}
			if _, dup := s.Fields[k]; !dup {
				g.st.mapEntries++
				if k == "" {
					g.st.mapZeroKey++
				}
			}
			s.Fields[k] = g.value(depth, -1)
		}
	}
	return s
}

func (g *ggen) list(depth int) *gogotypes.ListValue {
	l := &gogotypes.ListValue{}
	g.node(l)
	switch g.r.Intn(5) {
	case 0:
	case 1:
		l.Values = []*gogotypes.Value{}
		g.st.emptyNonNilList++
	default:
		for n := g.r.Range(1, 3); n > 0; n-- {
			l.Values = append(l.Values, g.value(depth, -1))
		}
	}
	return l
}

// genGogoNative draws a value of a gogo-generated type; slot >= 0 forces the arm of a top-level Value.
func genGogoNative(r *vlib.Rand, slot int) val {
	g := &ggen{pgen: newPgen(r)}
	var m gogoproto.Message
	k := r.Intn(16)
	if slot >= 0 {
		k = 0
	}
	switch k {
	case 0, 1, 2:
		m = g.value(2, slot)
	case 3, 4:
		m = g.structV(2)
	case 5:
		m = g.list(2)
	case 6:
		m = &gogotypes.DoubleValue{Value: g.double()}
	case 7:
		m = &gogotypes.FloatValue{Value: g.float()}
	case 8:
		m = &gogotypes.StringValue{Value: g.str()}
	case 9:
		b := r.Payload(64)
		if b == nil && r.Bool() {
			b = []byte{}
			g.st.emptyNonNilBytes++
		}
		m = &gogotypes.BytesValue{Value: b}
	case 10:
		m = []gogoproto.Message{&gogotypes.Int64Value{Value: genInt64(r)}, &gogotypes.UInt64Value{Value: g.uint64()}, &gogotypes.Int32Value{Value: g.int32()},
			&gogotypes.UInt32Value{Value: g.uint32()}, &gogotypes.BoolValue{Value: r.Bool()}}[r.Intn(5)]
	case 11:
		m = &gogotypes.Timestamp{Seconds: genInt64(r), Nanos: g.int32()}
	case 12:
		m = &gogotypes.Duration{Seconds: genInt64(r), Nanos: g.int32()}
	case 13:
		m = &gogotypes.Any{TypeUrl: g.str(), Value: r.Payload(64)}
	case 14:
		fm := &gogotypes.FieldMask{}
		switch r.Intn(3) {
		case 0:
		case 1:
			fm.Paths = []string{}
			g.st.emptyNonNilList++
		default:
			for i := r.Range(1, 4); i > 0; i-- {
				fm.Paths = append(fm.Paths, g.str())
			}
		}
		m = fm
	default:
		m = &gogotypes.Empty{}
	}
	if len(g.nodes) == 0 {
		g.node(m)
	}
	// unknown fields: top level and/or nested nodes
	mode := pickUnknownMode(r)
	nested := g.nodes[1:]
	set := func(n any) {
		if len(getXXX(n)) == 0 {
			setXXX(n, g.unknown())
		}
	}
	switch mode {
	case unkTop:
		set(g.nodes[0])
	case unkNested:
		if len(nested) == 0 {
			set(g.nodes[0])
		} else {
			set(nested[r.Intn(len(nested))])
		}
	case unkBoth:
		set(g.nodes[0])
		if len(nested) > 0 {
			set(nested[r.Intn(len(nested))])
		}
	case unkMany:
		for _, n := range g.nodes {
			if r.Bool() {
				set(n)
			}
		}
		set(g.nodes[len(g.nodes)-1])
	}
	for i, n := range g.nodes {
		if len(getXXX(n)) > 0 {
			g.st.unknownNodes++
			if i == 0 {
				g.st.unknownTop = 1
			} else {
				g.st.unknownNested = 1
			}
		}
	}
	hasNaN := g.st.nan > 0
	selfCheckGogo(m, hasNaN)
	det := gogoDet(m)
	text := ""
	if len(det) <= 1500 {
		text = clip(fmt.Sprintf("%v", m), 1200)
	}
	how := "random"
	if slot >= 0 {
		how = fmt.Sprintf("oneof sweep, arm %d", slot)
		g.st.armSweep = 1
	}
	t := reflect.TypeOf(m).Elem()
	return val{
		v:     m,
		fresh: func() any { return reflect.New(t).Interface() },
		equal: func(a, b any) bool { return gogoDiff(a.(gogoproto.Message), b.(gogoproto.Message), hasNaN) == "" },
		diff:  func(a, b any) string { return gogoDiff(a.(gogoproto.Message), b.(gogoproto.Message), hasNaN) },
		desc:  fmt.Sprintf("%T{%s; %d bytes sha256 %x; nodes %d, with unknown fields %d; %s}", m, how, len(det), sha256.Sum256(det), len(g.nodes), g.st.unknownNodes, text),
		zero:  len(det) == 0,
		strs:  g.strs,
		pst:   g.st,
		again: func(r *vlib.Rand) val {
			for {
				if w := genGogoNative(r, -1); reflect.TypeOf(w.v).Elem() == t {
					return w
				}
			}
		},
	}
}

type gogoSchemaGen struct {
	n, armSlot, only int
	std              schemaGen
}

func (sg *gogoSchemaGen) gen(r *vlib.Rand) val {
	sg.n++
	if sg.n%2 == 0 {
		// a google.golang.org/protobuf message of the schema family
		v := sg.std.gen(r)
		v.std = true
		v.desc = "std:" + v.desc
		return v
	}
	if sg.n%6 == 1 {
		slot := sg.armSlot % 7
		sg.armSlot++
		return genGogoNative(r, slot)
	}
	if sg.n%8 == 3 {
		// a message type only gogo can handle (gogoonly.go), the three kinds in turn
		sg.only++
		return genGogoOnly(r, sg.only)
	}
	return genGogoNative(r, -1)
}

func gogoSchemaStrVal(r *vlib.Rand, s string) val {
	if r.Bool() {
		v := schemaStrVal(r, s)
		v.std = true
		v.desc = "std:" + v.desc
		return v
	}
	var v val
	switch r.Intn(4) {
	case 3:
		return gogoOnlyStrVal(r, s)
	case 0:
		v = gogoVal(&gogotypes.StringValue{Value: s, XXX_unrecognized: protowire.AppendString(protowire.AppendTag(nil, 9, protowire.BytesType), s)}, s)
		v.pst.unknownTop, v.pst.unknownNodes = 1, 1
	case 1:
		st := gogoStruct(map[string]any{s: s, "l": []any{s}})
		st.Fields[s].XXX_unrecognized = protowire.AppendString(protowire.AppendTag(nil, 9, protowire.BytesType), s)
		v = gogoVal(st, s)
		v.pst.unknownNested, v.pst.unknownNodes = 1, 1
	default:
		v = gogoVal(&gogotypes.Any{TypeUrl: s, Value: []byte(s)}, s)
	}
	selfCheckGogo(v.v.(gogoproto.Message), false)
	t := reflect.TypeOf(v.v).Elem()
	v.again = func(r *vlib.Rand) val {
		for {
			if w := genGogoNative(r, -1); reflect.TypeOf(w.v).Elem() == t {
				return w
			}
		}
	}
	return v
}

func gogoSchemaSized(r *vlib.Rand, n int) val {
	switch r.Intn(3) {
	case 0:
		v := schemaSized(r, n)
		v.std = true
		v.desc = "std:" + v.desc
		return v
	case 1:
		v := gogoVal(&gogotypes.Empty{XXX_unrecognized: protowire.AppendBytes(protowire.AppendTag(nil, 7, protowire.BytesType), r.Bytes(n))})
		v.desc = fmt.Sprintf("*types.Empty{unknown bytes field of %d bytes}", n)
		v.pst.unknownTop, v.pst.unknownNodes = 1, 1
		v.again = func(r *vlib.Rand) val { return gogoVal(&gogotypes.Empty{}) }
		return v
	default:
		return gogoSized(r, n)
	}
}

func runGogoSchema(e *vlib.Env, res *vlib.Result) {
	sg := &gogoSchemaGen{armSlot: (e.Idx / len(c16Classes)) * 4, std: schemaGen{armSlot: (e.Idx / len(c16Classes)) * 8}}
	runCodec(e, res, "ProtobufMarshaler(gogo)", sg.gen, gogoSchemaStrVal, gogoSchemaSized, func(u func() string, g func(v interface{}) string, _ bool) cqrs.CommandEventMarshaler {
		return cqrs.ProtobufMarshaler{NewUUID: u, GenerateName: g}
	}, false, true)
}
