package c16

import (
	"bytes"
	"encoding/json"
	"fmt"
	"reflect"
	"strings"
	"time"

	"github.com/ThreeDotsLabs/watermill/components/cqrs"
	"github.com/ThreeDotsLabs/watermill/message"

	"verifharness/vlib"
)

// ---------------------------------------------------------------------------------------------------------
// Unmarshal targets that are NOT fresh zero values.
//
// cqrs hands Unmarshal whatever NewCommand/NewEvent (or a custom handler) returns: an object kept per consumer, taken from a
// pool, or pre-populated by a constructor. "Unmarshal after Marshal is the identity" is a statement about the value the caller
// holds afterwards, so it is judged for targets that already carry data too:
//
//   - reused: one target per Go type is kept for the whole batch and every message of that type is decoded into it, so it
//     still holds the previous (usually different) value of that type; with some probability the same message is decoded
//     a second time into the target that now holds the equal value;
//   - pre-populated: a target that holds another generated value of the same type and was never touched by the marshaler.
//
// What is demanded:
//
//   - Protobuf marshalers (ProtoMarshaler, the deprecated gogo ProtobufMarshaler): the result equals the marshaled value.
//     Both proto.Unmarshal implementations are documented to reset the target first ("Unmarshal parses the wire-format message
//     in b and places the result in m. The provided message must be mutable" - it is UnmarshalOptions.Merge that keeps the old
//     content; gogo: "Unmarshal resets pb before starting to unmarshal"), so on the unchanged tree the identity holds exactly.
//   - JSON marshaler: encoding/json - the codec the marshaler is documented to use - does NOT reset its target: it "reuses
//     the existing map, keeping existing entries", leaves struct fields that are absent from the document (omitempty) alone and
//     decodes array elements and pointees in place. The identity can therefore not be demanded for stale map keys and for
//     fields the document omits. Demanded is the part of the identity that holds for every conforming decoder (coversJSON):
//     every part of the value that IS in the document comes back exactly - scalars, strings, []byte, slice lengths and
//     nil-ness, nil pointers/maps/interfaces, every key of every map with its value, contents of untyped slots
//     (replaced wholesale) - only additional map keys and omitted fields may keep what the target held before.

// targetBook keeps the reused targets of one batch and counts what was exercised.
type targetBook struct {
	byType map[reflect.Type]*heldTarget

	pristine, reused, reusedDifferent, reusedNonZeroForZero, twice int
	prepop, prepopNonZero, noDonor                                 int
}

type heldTarget struct {
	target any
	holds  val
}

func newTargetBook() *targetBook { return &targetBook{byType: map[reflect.Type]*heldTarget{}} }

// donor returns another generated value of the same Go type as v (never handed to the marshaler before), or nil.
func donor(r *vlib.Rand, v val) *val {
	if v.again == nil {
		return nil
	}
	t := reflect.TypeOf(v.v)
	for tries := 0; tries < 12; tries++ {
		w := v.again(r)
		if reflect.TypeOf(w.v) == t {
			return &w
		}
	}
	return nil
}

// judge compares the content of a non-fresh target after Unmarshal with the marshaled value; "" when the law holds.
func (v val) judge(target any) string {
	if v.covers != nil {
		return v.covers(v.v, target)
	}
	if !v.equal(v.v, target) {
		d := ""
		if v.diff != nil {
			d = v.diff(v.v, target) + "; "
		}
		if v.large {
			return d + "target differs"
		}
		return fmt.Sprintf("%starget now holds %s", d, clip(fmt.Sprintf("%v", target), 600))
	}
	return ""
}

type failFn func(clause, format string, args ...any)

// run decodes msg (the marshaled v) into non-fresh targets. false after a failure.
func (tb *targetBook) run(r *vlib.Rand, res *vlib.Result, m cqrs.CommandEventMarshaler, msg *message.Message, v val, fail failFn) bool {
	decode := func(clause, what string, target any) bool {
		var err error
		wire := msg
		if r.Bool() {
			wire = msg.Copy()
		}
		if p := guard(func() { err = m.Unmarshal(wire, target) }); p != "" {
			fail("panic", "Unmarshal into %s panicked: %s (payload %s)", what, p, showBytes(msg.Payload))
			return false
		}
		res.Events++
		if err != nil {
			fail("cqrs-unmarshal-error", "Unmarshal(Marshal(v)) into %s failed: %v (payload %s)", what, err, showBytes(msg.Payload))
			return false
		}
		res.Events++
		if d := v.judge(target); d != "" {
			fail(clause, "Unmarshal(Marshal(v)) into %s is not v: %s (payload %s)", what, d, showBytes(msg.Payload))
			return false
		}
		return true
	}

	t := reflect.TypeOf(v.v)
	ht := tb.byType[t]
	what := ""
	if ht == nil {
		ht = &heldTarget{target: v.fresh()}
		tb.byType[t] = ht
		tb.pristine++
		what = "the (still pristine) target that is kept for this type"
	} else {
		tb.reused++
		if !ht.holds.equal(ht.holds.v, v.v) {
			tb.reusedDifferent++
		}
		if v.zero && !ht.holds.zero {
			tb.reusedNonZeroForZero++
		}
		what = "a target reused between calls that still held the previous value " + clip(ht.holds.desc, 300)
	}
	if !decode("cqrs-roundtrip-reused-target", what, ht.target) {
		return false
	}
	ht.holds = v
	if r.Chance(0.25) {
		tb.twice++
		if !decode("cqrs-roundtrip-reused-target", "the target that already holds the value (same message decoded twice)", ht.target) {
			return false
		}
	}
	if r.Bool() {
		w := donor(r, v)
		if w == nil {
			tb.noDonor++
			return true
		}
		tb.prepop++
		if !w.zero {
			tb.prepopNonZero++
		}
		if !decode("cqrs-roundtrip-prepopulated-target", "a pre-populated target holding "+clip(w.desc, 300), w.v) {
			return false
		}
	}
	return true
}

func (tb *targetBook) report(res *vlib.Result) {
	res.Count("unmarshal_into_pristine_kept_target", tb.pristine)
	res.Count("unmarshal_into_reused_target", tb.reused)
	res.Count("unmarshal_into_reused_target_holding_different_value", tb.reusedDifferent)
	res.Count("unmarshal_zero_value_into_reused_nonzero_target", tb.reusedNonZeroForZero)
	res.Count("unmarshal_same_message_twice_into_target", tb.twice)
	res.Count("unmarshal_into_prepopulated_target", tb.prepop)
	res.Count("unmarshal_into_prepopulated_nonzero_target", tb.prepopNonZero)
	res.Count("prepopulated_target_no_donor", tb.noDonor)
}

// ---------------------------------------------------------------------------------------------------------
// coversJSON: the part of "got equals want" that every decoder with encoding/json's documented target semantics guarantees
// when got was not empty before decoding the encoding of want. want and got are pointers to values of the same type.

func coversJSON(want, got any) string {
	return coversRec(reflect.ValueOf(want), reflect.ValueOf(got), "v")
}

var timeType = reflect.TypeOf(time.Time{})
var jsonUnmarshalerType = reflect.TypeOf((*json.Unmarshaler)(nil)).Elem()

// jsonEmpty is encoding/json's notion of an "empty value" (what omitempty omits).
func jsonEmpty(v reflect.Value) bool {
	switch v.Kind() {
	case reflect.Array, reflect.Map, reflect.Slice, reflect.String:
		return v.Len() == 0
	case reflect.Bool, reflect.Int, reflect.Int8, reflect.Int16, reflect.Int32, reflect.Int64,
		reflect.Uint, reflect.Uint8, reflect.Uint16, reflect.Uint32, reflect.Uint64, reflect.Uintptr,
		reflect.Float32, reflect.Float64, reflect.Interface, reflect.Pointer:
		return v.IsZero()
	}
	return false
}

func coversRec(want, got reflect.Value, path string) string {
	differ := func() string {
		return fmt.Sprintf("at %s: marshaled %s, target now holds %s", path, showVal(want), showVal(got))
	}
	if want.Type() != got.Type() {
		return differ()
	}
	switch want.Kind() {
	case reflect.Pointer:
		// JSON null sets a pointer to nil; otherwise the decoder allocates or decodes into the existing pointee
		if want.IsNil() || got.IsNil() {
			if want.IsNil() != got.IsNil() {
				return differ()
			}
			return ""
		}
		return coversRec(want.Elem(), got.Elem(), path)
	case reflect.Interface:
		// an untyped slot that does not hold a pointer is replaced wholesale (null -> nil interface)
		if !reflect.DeepEqual(want.Interface(), got.Interface()) {
			if d := firstDiff(want, got, path); d != "" {
				return d
			}
			return differ()
		}
		return ""
	case reflect.Struct:
		if want.Type() == timeType || reflect.PointerTo(want.Type()).Implements(jsonUnmarshalerType) {
			if !reflect.DeepEqual(want.Interface(), got.Interface()) {
				return differ()
			}
			return ""
		}
		for i := 0; i < want.NumField(); i++ {
			f := want.Type().Field(i)
			if !f.IsExported() {
				continue
			}
			tag := f.Tag.Get("json")
			if tag == "-" {
				continue // never part of the document
			}
			name, opts, _ := strings.Cut(tag, ",")
			_ = name
			if strings.Contains(","+opts+",", ",omitempty,") && jsonEmpty(want.Field(i)) {
				continue // absent from the document: the target's field is left alone
			}
			if d := coversRec(want.Field(i), got.Field(i), path+"."+f.Name); d != "" {
				return d
			}
		}
		return ""
	case reflect.Map:
		// null -> nil map; an object is merged into the existing map: every marshaled key must be there with its value,
		// keys the target held before may still be there
		if want.IsNil() || got.IsNil() {
			if want.IsNil() != got.IsNil() {
				return differ()
			}
			return ""
		}
		for _, k := range want.MapKeys() {
			gv := got.MapIndex(k)
			if !gv.IsValid() {
				return fmt.Sprintf("at %s: marshaled key %s is missing in the target", path, clip(fmt.Sprintf("%#v", k.Interface()), 100))
			}
			if d := coversRec(want.MapIndex(k), gv, fmt.Sprintf("%s[%s]", path, clip(fmt.Sprintf("%#v", k.Interface()), 60))); d != "" {
				return d
			}
		}
		return ""
	case reflect.Slice:
		if want.Type().Elem().Kind() == reflect.Uint8 {
			// []byte travels as one base64 string and is replaced as a whole
			if want.IsNil() != got.IsNil() || !bytes.Equal(want.Bytes(), got.Bytes()) {
				return differ()
			}
			return ""
		}
		// null -> nil slice; an array sets the length (elements are decoded in place)
		if want.IsNil() != got.IsNil() || want.Len() != got.Len() {
			return differ()
		}
		fallthrough
	case reflect.Array:
		for i := 0; i < want.Len(); i++ {
			if d := coversRec(want.Index(i), got.Index(i), fmt.Sprintf("%s[%d]", path, i)); d != "" {
				return d
			}
		}
		return ""
	default:
		if !reflect.DeepEqual(want.Interface(), got.Interface()) {
			return differ()
		}
		return ""
	}
}
