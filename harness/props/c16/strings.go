package c16

import (
	"strings"
	"unicode/utf8"

	"verifharness/vlib"
)

// ---------------------------------------------------------------------------------------------------------
// "hostile" strings: valid UTF-8 texts that survive a value-preserving codec unchanged but are altered by any
// plausible RE-INTERPRETATION of the text on the way (used as a printf format, as a template, HTML-/URL-/JSON-
// escaped or unescaped once too often, trimmed, split at a separator, cut at NUL, normalised, case-folded,
// parsed as a number/bool/null, cut at a buffer limit ...). The property quantifies over all valid UTF-8 strings,
// so every string slot of every class (UUIDs, metadata keys and values, topics, error texts, names, struct and
// protobuf string fields, map keys) draws from this generator as well as from the uniform one.

var hostileFrags = map[string][]string{
	// fmt verbs, flags, width/precision, argument indexes, fmt's own error markers, literal percent
	"printf": {"%", "%%", "%s", "%d", "%v", "%+v", "%#v", "%q", "%x", "%c", "%T", "%w", "%n", "%!", "%!s(MISSING)", "%!(NOVERB)", "%!(EXTRA string=x)",
		"%20", "%2F", "%00", "%5.2f", "%-8s", "%[1]d", "%[2]*d", "%*d", "% d", "%é", "100%", "50% done", "%%s", "%%%", "a%20b", "LIKE '%son'", "%(name)s", "%1$s"},
	// backslash sequences as TEXT (not the characters they denote), quotes of every kind
	"escape": {`\`, `\\`, `\n`, `\t`, `\r`, `\"`, `\'`, `\0`, `\x00`, `\u0041`, `\u00e9`, `\ud83d`, `\ud83d\ude00`, `\U0001F600`, `\/`, `\b`, `C:\dir\file`, `a\`,
		`"`, `'`, "`", `""`, `''`, `"a"`, `'a'`, `"a":"b"`, `a"b`, `it's`, "“”", "‘’", "«»"},
	// characters that HTML/XML/JSON encoders treat specially, and texts that look like markup / JSON documents
	"markup": {"<", ">", "&", "<>&", "&amp;", "&lt;", "&gt;", "&quot;", "&#39;", "&#x27;", "&nbsp;", "&", "<script>", "</script>", "<a href=\"x\">", "<!--", "-->", "]]>", "<![CDATA[",
		"\u2028", "\u2029", "a\u2028b", "\u0085", `{"a":1}`, `{"a":"b"}`, `[1,2]`, `{}`, `[]`, `{`, `}`, `[`, `]`, `"x"`, `null`, `true`, `false`, `{"uuid":"x","payload":"","metadata":{}}`, "\\u003c", "\\u0026"},
	// NUL and other control characters, line structure, terminal escapes
	"control": {"\x00", "\x00\x00", "a\x00b", "\x00a", "a\x00", "\x01", "\x1f", "\x7f", "\x1b[31m", "\x1b", "\b", "\f", "\v", "\a", "\r\n", "\r", "\n", "\n\n", "a\nb", "a\r\nb", "line1\nline2\n", "\t", "a\tb", "\x1e", "\x1c"},
	// whitespace of every kind (meant for the edges of a text, see hostileStr), zero-width characters, BOM
	"space": {" ", "  ", "\t", "\n", " \t\n", "\u00a0", "\u3000", "\u2003", "\u200b", "\u200d", "\u2060", "\ufeff", "\u1680", "\u180e"},
	// template / interpolation / shell / regexp / glob / SQL / path / URL syntax, separators a codec might split at
	"syntax": {"{{.}}", "{{", "}}", "{{ .Name }}", "${x}", "$x", "$1", "$$", "$", "#{x}", "{0}", "{}", "{name}", "<%= x %>", "`x`", "$(x)", "!!", "~", "*", "?", "[a-z]", ".*", "^$", "(", ")", "(?i)", "a|b", "+",
		"'; DROP TABLE x;--", "' OR ''='", "--", "/*", "*/", "/", "//", "../", "../../etc/passwd", "a/b", "a//b", ".", "..", "a b", "a+b", "?a=b&c=d", "#frag", "a#b", "http://h/p?q=%s&r=1#f", "a%2Fb", "a@b", "a:b", "a=b",
		"key=value", "a,b", "a;b", "a|b", ",", ";", ":", "=", "|", "\x1f", "a.b", "a.b.c", "a>b", "a.*", "a.>", "#", "a.#"},
	// texts that parse as something else: numbers, booleans, null, dates, base64, hex, UUIDs
	"literal": {"0", "-0", "1", "-1", "007", "1e5", "1E400", "1.0", "1.", ".5", "0x10", "1_000", "9007199254740993", "18446744073709551616", "-9223372036854775809", "NaN", "Infinity", "-Infinity", "inf",
		"true", "false", "TRUE", "yes", "null", "nil", "<nil>", "undefined", "None", "2006-01-02T15:04:05Z", "AA==", "YQ==", "YQ", "-_", "+/", "deadbeef", "00000000-0000-0000-0000-000000000000",
		"name", "Name", "uuid", "payload", "metadata", "_watermill_requestreply_has_error", "_watermill_requestreply_error", "_watermill_requestreply_notify_when_executed", "_watermill_delayed_until", "error", "1"},
	// characters with normalisation / case-folding / width / direction variants, borders of the UTF-8 encoding ranges
	"unicode": {"é", "e\u0301", "ß", "ẞ", "İ", "ı", "I", "i", "\u212a", "K", "k", "ſ", "\u212b", "Å", "A\u030a", "ﬁ", "ǆ", "Σ", "σ", "ς", "Ａ", "１", "\u202e", "\u202d", "\u200f", "\u061c",
		"\ufffd", "\ufffe", "\uffff", "\U0001F600", "\U0010FFFF", "\U00010000", "\ud7ff", "\ue000", "\u007f", "\u0080", "\u07ff", "\u0800", "𝕏", "👨\u200d👩\u200d👧", "🇵🇱", "e\u0301\u0301\u0301", "\u0301", "ا", "אב", "ก็", "한", "\u1100\u1161"},
}

var hostileKinds = []string{"printf", "escape", "markup", "control", "space", "syntax", "literal", "unicode"}

// plain words used to embed a fragment in ordinary text ("disk is 100% full")
var plainWords = []string{"disk is", "full", "cannot fetch", "error", "done", "order", "id", "x", "a", "no rows for", "see", "failed:", "é", "世界", "user", "topic", "events"}

func hostileFrag(r *vlib.Rand) string {
	fs := hostileFrags[hostileKinds[r.Intn(len(hostileKinds))]]
	return fs[r.Intn(len(fs))]
}

// hostileStr builds one hostile text: a bare fragment, a fragment inside ordinary text, at the very start or the very end of
// a text, several fragments concatenated, a fragment repeated, whitespace at the edges of a text, or a very long text.
func hostileStr(r *vlib.Rand) string {
	word := func() string { return plainWords[r.Intn(len(plainWords))] }
	var s string
	switch r.Intn(16) {
	case 0, 1, 2:
		s = hostileFrag(r)
	case 3, 4:
		s = word() + " " + hostileFrag(r) + " " + word()
	case 5:
		s = word() + hostileFrag(r) + word()
	case 6:
		s = hostileFrag(r) + r.UTF8(6)
	case 7:
		s = r.UTF8(6) + hostileFrag(r)
	case 8, 9:
		var b strings.Builder
		for i := r.Range(2, 5); i > 0; i-- {
			b.WriteString(hostileFrag(r))
			if r.Chance(0.3) {
				b.WriteString(word())
			}
		}
		s = b.String()
	case 10:
		s = strings.Repeat(hostileFrag(r), r.Range(2, 40))
	case 11:
		// leading and/or trailing whitespace (a TrimSpace / header-style folding on the way would drop it)
		sp := hostileFrags["space"]
		s = r.UTF8(6)
		if s == "" || r.Bool() {
			s = word()
		}
		switch r.Intn(3) {
		case 0:
			s = sp[r.Intn(len(sp))] + s
		case 1:
			s = s + sp[r.Intn(len(sp))]
		default:
			s = sp[r.Intn(len(sp))] + s + sp[r.Intn(len(sp))]
		}
	case 12:
		// the same fragment as a whole text's prefix and suffix (a one-sided Trim/Unquote would be asymmetric)
		f := hostileFrag(r)
		s = f + word() + f
	case 13:
		// a fragment of one kind nested in quoting of another: "\"%s\"", "<%d>", "{{%v}}"
		q := [][2]string{{`"`, `"`}, {`'`, `'`}, {"<", ">"}, {"{{", "}}"}, {"${", "}"}, {"(", ")"}, {"[", "]"}, {`\"`, `\"`}, {"%", "%"}, {" ", " "}}[r.Intn(10)]
		s = q[0] + hostileFrag(r) + q[1]
	case 14:
		// long: past typical small-buffer sizes (256, 512, 1 KiB, 4 KiB), hostile fragment at a random position
		n := []int{255, 256, 257, 511, 513, 1023, 1025, 4095, 4097, 8193}[r.Intn(10)]
		unit := []string{"a", "é", "世", "😀", "%", `\`, "<", " ", "\x00", "ab "}[r.Intn(10)]
		s = strings.Repeat(unit, n/len(unit)+1)
		cut := r.Intn(len(s) + 1)
		for cut > 0 && cut < len(s) && !utf8.RuneStart(s[cut]) {
			cut--
		}
		s = s[:cut] + hostileFrag(r) + s[cut:]
	default:
		// very long: past 64 KiB (bufio.Scanner's token limit, 16-bit length prefixes), rarely
		if r.Chance(0.08) {
			n := []int{65535, 65536, 65537, 70000, 131073}[r.Intn(5)]
			unit := []string{"a", "é", "%s", "\\", "x y "}[r.Intn(5)]
			s = strings.Repeat(unit, n/len(unit)+1) + hostileFrag(r)
		} else {
			s = hostileFrag(r) + hostileFrag(r)
		}
	}
	if !utf8.ValidString(s) {
		panic(harnessBug("hostile generator produced invalid UTF-8: " + showStr(s)))
	}
	return s
}

// ---------------------------------------------------------------------------------------------------------
// classification of the strings a case used (counters + non-triviality)

func hasPrintfVerb(s string) bool { return strings.ContainsRune(s, '%') }

func hasEdgeSpace(s string) bool {
	return s != "" && strings.TrimSpace(s) != s
}

func (f *feat) classify(s string) {
	if hasPrintfVerb(s) {
		f.nPercent++
		if strings.HasSuffix(s, "%") {
			f.nTrailingPercent++
		}
	}
	if strings.ContainsAny(s, "\\\"'`") {
		f.nQuoteBackslash++
	}
	if strings.ContainsAny(s, "<>&\u2028\u2029") {
		f.nMarkup++
	}
	if strings.ContainsRune(s, 0) {
		f.nNUL++
	}
	if hasEdgeSpace(s) {
		f.nEdgeSpace++
	}
	if strings.ContainsAny(s, "{}$") {
		f.nTemplate++
	}
	if len(s) > 4096 {
		f.nLong4k++
	}
	if len(s) > 65536 {
		f.nLong64k++
	}
}

// report prints what kinds of strings the case drew.
func (f *feat) report(res *vlib.Result) {
	res.Count("strings", f.n)
	res.Count("strings_with_percent", f.nPercent)
	res.Count("strings_with_trailing_percent", f.nTrailingPercent)
	res.Count("strings_with_quote_or_backslash", f.nQuoteBackslash)
	res.Count("strings_with_html_json_special", f.nMarkup)
	res.Count("strings_with_nul", f.nNUL)
	res.Count("strings_with_edge_whitespace", f.nEdgeSpace)
	res.Count("strings_with_template_syntax", f.nTemplate)
	res.Count("strings_longer_4KiB", f.nLong4k)
	res.Count("strings_longer_64KiB", f.nLong64k)
}

// ---------------------------------------------------------------------------------------------------------
// corpus sweep: random draws reach a given fragment only now and then, so every class additionally walks through the fragment
// corpus deterministically: the n-th "sweep slot" of a class (counted over all cases of the class: case number x slots per case
// + slot) carries fragment n mod len(corpus), bare in the first pass over the corpus, inside ordinary text in the second, at the
// end of a text in the third. With 64 cases per class in the quick tier every fragment is seen at least once per class and
// role group (message strings, topics, codec values, reply error texts, reply results).

var sweepCorpus = func() []string {
	var all []string
	seen := map[string]bool{}
	for _, k := range hostileKinds {
		for _, f := range hostileFrags[k] {
			if !seen[f] {
				seen[f] = true
				all = append(all, f)
			}
		}
	}
	return all
}()

// sweeper hands out the sweep texts of one case.
type sweeper struct{ base, perCase, used int }

// newSweeper: perCase is the (fixed) number of sweep slots a case of this class has.
func newSweeper(e *vlib.Env, perCase int) *sweeper {
	return &sweeper{base: (e.Idx / len(c16Classes)) * perCase, perCase: perCase}
}

// at returns the text of slot j (0 <= j < perCase) of this case.
func (sw *sweeper) at(j int) string {
	if j < 0 || j >= sw.perCase {
		panic(harnessBug("sweep slot out of range"))
	}
	sw.used++
	g := sw.base + j
	f := sweepCorpus[g%len(sweepCorpus)]
	switch (g / len(sweepCorpus)) % 3 {
	case 0:
		return f
	case 1:
		return "disk is 100" + f + " full"
	default:
		return "progress: " + f
	}
}

// applySweep puts the sweep text t into one string role of a message spec: 0 UUID, 1 a metadata key, 2 a metadata value.
func applySweep(r *vlib.Rand, spec *msgSpec, t string, role int) {
	switch role % 3 {
	case 0:
		spec.UUID = t
	case 1:
		spec.NilMeta = false
		spec.Meta[t] = genStr(r)
	default:
		spec.NilMeta = false
		k := genStr(r)
		if len(spec.Meta) > 0 && r.Bool() {
			k = pickKey(r, spec.Meta)
		}
		spec.Meta[k] = t
	}
}
