package c16

import (
	"crypto/sha256"
	"fmt"
	"strings"

	"github.com/ThreeDotsLabs/watermill/components/cqrs"
	"google.golang.org/protobuf/encoding/protowire"
	"google.golang.org/protobuf/proto"
	"google.golang.org/protobuf/reflect/protodesc"
	"google.golang.org/protobuf/reflect/protoreflect"
	"google.golang.org/protobuf/types/descriptorpb"
	_ "google.golang.org/protobuf/types/gofeaturespb" // registers an extension of descriptorpb.FeatureSet
	"google.golang.org/protobuf/types/known/anypb"
	"google.golang.org/protobuf/types/known/apipb"
	"google.golang.org/protobuf/types/known/durationpb"
	"google.golang.org/protobuf/types/known/emptypb"
	"google.golang.org/protobuf/types/known/fieldmaskpb"
	"google.golang.org/protobuf/types/known/sourcecontextpb"
	"google.golang.org/protobuf/types/known/structpb"
	"google.golang.org/protobuf/types/known/timestamppb"
	"google.golang.org/protobuf/types/known/typepb"
	"google.golang.org/protobuf/types/known/wrapperspb"
	"google.golang.org/protobuf/types/pluginpb"

	"verifharness/props/c16/c16pb"
	"verifharness/vlib"
)

// ---------------------------------------------------------------------------------------------------------
// class cqrs/proto-schema: the Protobuf family as generated code of a schema has it.
//
// The types: c16pb.Event / Leaf (proto3: every scalar kind, proto3 `optional` scalars, repeated packed and unpacked, eight map types,
// two oneofs with 12+2 arms, recursion, well-known types as fields), c16pb.Legacy (proto2: required, optional with defaults, group,
// map, oneof, extension range with three registered extensions), their OLDER REVISIONS EventOld / LeafOld / LegacyOld / EventOpaque
// (subsets of the fields, same numbers), the well-known types (struct, any, timestamp, duration, field mask, all nine wrappers, empty,
// api, type, source context) and descriptor.proto / plugin.proto (large proto2 types). c16pb is ordinary protoc-gen-go output
// (c16pb/gen.go). Values come from the descriptor-driven generator (protogen.go).

var schemaWKTs = []proto.Message{
	&structpb.Value{}, &structpb.Struct{}, &structpb.ListValue{}, &anypb.Any{}, &timestamppb.Timestamp{}, &durationpb.Duration{},
	&fieldmaskpb.FieldMask{}, &emptypb.Empty{}, &wrapperspb.DoubleValue{}, &wrapperspb.FloatValue{}, &wrapperspb.Int64Value{},
	&wrapperspb.UInt64Value{}, &wrapperspb.Int32Value{}, &wrapperspb.UInt32Value{}, &wrapperspb.BoolValue{}, &wrapperspb.StringValue{},
	&wrapperspb.BytesValue{}, &apipb.Api{}, &apipb.Method{}, &typepb.Type{}, &typepb.Field{}, &typepb.Enum{}, &sourcecontextpb.SourceContext{},
}

var schemaDescTypes = []proto.Message{
	&descriptorpb.FileDescriptorProto{}, &descriptorpb.DescriptorProto{}, &descriptorpb.FieldDescriptorProto{}, &descriptorpb.FieldOptions{},
	&descriptorpb.FeatureSet{}, &descriptorpb.UninterpretedOption{}, &descriptorpb.SourceCodeInfo{}, &pluginpb.CodeGeneratorResponse{},
	&descriptorpb.FileDescriptorSet{}, &descriptorpb.MessageOptions{},
}

// registered files whose descriptors serve as real-world (large, deeply nested, proto2 optional everywhere) values
var schemaRealFiles = []protoreflect.FileDescriptor{
	descriptorpb.File_google_protobuf_descriptor_proto, c16pb.File_verif_c16_events_proto, structpb.File_google_protobuf_struct_proto,
	c16pb.File_verif_c16_legacy_proto, pluginpb.File_google_protobuf_compiler_plugin_proto, typepb.File_google_protobuf_type_proto,
}

func pickUnknownMode(r *vlib.Rand) int {
	switch r.Intn(10) {
	case 0, 1, 2:
		return unkNone
	case 3, 4:
		return unkTop
	case 5, 6:
		return unkNested
	case 7, 8:
		return unkBoth
	default:
		return unkMany
	}
}

// finishSchemaVal: nil-vs-empty Go shapes, unknown fields, self-check, description.
func finishSchemaVal(g *pgen, m proto.Message, mode int, how string) val {
	g.goShapes(m.ProtoReflect())
	g.attachUnknown(m.ProtoReflect(), mode)
	return wrapSchemaVal(g, m, how)
}

func wrapSchemaVal(g *pgen, m proto.Message, how string) val {
	selfCheckProto(m)
	top, nested := unknownCensus(m.ProtoReflect())
	g.st.unknownNodes = top + nested
	g.st.unknownTop = top
	if nested > 0 {
		g.st.unknownNested = 1
	}
	det := detBytes(m)
	text := ""
	if len(det) <= 160 {
		text = clip(fmt.Sprintf("%v", m), 400)
	}
	mt := m.ProtoReflect().Type()
	// the deterministic encoding of v is computed once; v itself is never written to by the harness after this point
	diff := func(a, b any) string {
		if a == any(m) {
			return protoDiffDet(m, det, b.(proto.Message))
		}
		return protoDiff(a.(proto.Message), b.(proto.Message))
	}
	return val{
		v:     m,
		fresh: func() any { return mt.New().Interface() },
		equal: func(a, b any) bool { return diff(a, b) == "" },
		diff:  diff,
		desc: fmt.Sprintf("%T{%s; %d bytes sha256 %x; %s; nodes %d, with unknown fields: top %d nested %d; %s}", m, how, len(det), sha256.Sum256(det), oneofDesc(m.ProtoReflect()),
			g.st.nodes, top, nested, text),
		zero:  len(det) == 0,
		strs:  g.strs,
		pst:   g.st,
		again: func(r *vlib.Rand) val { return donorOfType(r, mt) },
	}
}

// donorOfType: content for a pre-populated target - a random value of the type incl. unknown fields; it is never marshaled, so it
// needs no self-check and no description.
func donorOfType(r *vlib.Rand, mt protoreflect.MessageType) val {
	g := newPgen(r)
	g.shortStrings = true
	g.budget = 20
	m := mt.New()
	g.fill(m, 2)
	g.attachUnknown(m, pickUnknownMode(r))
	return val{v: m.Interface(), desc: fmt.Sprintf("%T{random, %d nodes}", m.Interface(), g.st.nodes), zero: proto.Size(m.Interface()) == 0}
}

// oneofDesc names the arms the top-level message has set.
func oneofDesc(m protoreflect.Message) string {
	oos := m.Descriptor().Oneofs()
	var parts []string
	for i := 0; i < oos.Len(); i++ {
		if oos.Get(i).IsSynthetic() {
			continue
		}
		if fd := m.WhichOneof(oos.Get(i)); fd != nil {
			parts = append(parts, string(oos.Get(i).Name())+"="+string(fd.Name()))
		} else {
			parts = append(parts, string(oos.Get(i).Name())+" unset")
		}
	}
	if len(parts) == 0 {
		return "no oneof"
	}
	return strings.Join(parts, ",")
}

// genSchemaOfType: a random value of the type of proto (a new message of the same type is filled).
func genSchemaOfType(r *vlib.Rand, tmpl proto.Message, depth int) val {
	g := newPgen(r)
	m := tmpl.ProtoReflect().New()
	if strings.HasPrefix(string(m.Descriptor().FullName()), "google.protobuf.") && m.Descriptor().Fields().Len() > 6 {
		g.shortStrings = true // descriptor types: many strings per node
		g.budget = 40
	}
	g.fill(m, depth)
	return finishSchemaVal(g, m.Interface(), pickUnknownMode(r), "random")
}

// genFromRicher decodes the encoding of a value of a RICHER type into the older revision of the schema: what a service built against
// the old schema holds after consuming an event of a newer producer - and what it re-publishes. The decoding is done by the harness
// with the protobuf library, not by the marshaler under test.
func genFromRicher(r *vlib.Rand) val {
	g := newPgen(r)
	var rich, poor proto.Message
	switch r.Intn(8) {
	case 0, 1, 2:
		rich, poor = &c16pb.Event{}, &c16pb.EventOld{}
	case 3:
		rich, poor = &c16pb.Event{}, &c16pb.EventOpaque{}
	case 4:
		rich, poor = &c16pb.Leaf{}, &c16pb.LeafOld{}
	case 5:
		rich, poor = &c16pb.Legacy{}, &c16pb.LegacyOld{}
	case 6:
		rich, poor = &c16pb.Legacy{}, &emptypb.Empty{}
	default:
		rich, poor = &c16pb.EventOld{}, &c16pb.EventOpaque{}
	}
	g.fill(rich.ProtoReflect(), 3)
	if r.Bool() {
		g.attachUnknown(rich.ProtoReflect(), pickUnknownMode(r)) // fields that even the newer schema does not know
	}
	b := detBytes(rich) // (deterministic: the order of map entries ends up in the unknown fields of the poorer value)
	if err := proto.Unmarshal(b, poor); err != nil {
		panic(harnessBug(fmt.Sprintf("decoding %T bytes into %T: %v", rich, poor, err)))
	}
	g.st.fromRicher++
	return wrapSchemaVal(g, poor, fmt.Sprintf("decoded from the encoding of a %T", rich))
}

// genRealDescriptor: the FileDescriptorProto of a registered .proto file, in 1 of 2 with unknown fields somewhere in its tree.
func genRealDescriptor(r *vlib.Rand, big bool) val {
	g := newPgen(r)
	fd := schemaRealFiles[2+r.Intn(len(schemaRealFiles)-2)]
	if big {
		fd = schemaRealFiles[r.Intn(2)] // descriptor.proto (about 10 KiB, 600 nodes), events.proto
	}
	m := protodesc.ToFileDescriptorProto(fd)
	var ns []protoreflect.Message
	msgNodes(m.ProtoReflect(), &ns)
	g.st.nodes = len(ns)
	mode := unkNone
	if r.Bool() {
		mode = pickUnknownMode(r)
	}
	g.attachUnknown(m.ProtoReflect(), mode)
	return wrapSchemaVal(g, m, "descriptor of "+fd.Path())
}

// bigBytes: n bytes made of a random 4 KiB block repeated, with random bytes sprinkled in (drawing megabytes byte by byte is slow).
func bigBytes(r *vlib.Rand, n int) []byte {
	if n <= 8192 {
		return r.Bytes(n)
	}
	block := r.Bytes(4096)
	b := make([]byte, 0, n)
	for len(b) < n {
		b = append(b, block[:min(len(block), n-len(b))]...)
	}
	for i := 0; i < 64; i++ {
		b[r.Intn(n)] = byte(r.Uint64())
	}
	return b
}

// genLargeSchemaVal: messages of 100 KiB .. 2 MiB (rarely 8-12 MiB) in different shapes.
func genLargeSchemaVal(r *vlib.Rand) val {
	g := newPgen(r)
	g.shortStrings = true
	ev := &c16pb.Event{Id: g.str()}
	size := []int{100 << 10, 300 << 10, 1 << 20, 2 << 20}[r.Intn(4)]
	k := r.Intn(6)
	if r.Chance(0.04) && (k == 0 || k == 4) {
		size = r.Range(8, 12) << 20
	}
	if k >= 1 && k <= 3 && size > 300<<10 {
		size = 300 << 10 // many nodes: every comparison walks them several times
	}
	how := ""
	switch k {
	case 0:
		how = "one bytes field"
		ev.Data = bigBytes(r, size)
	case 1:
		how = "many list elements"
		for n := min(size/24, 1000); n > 0; n-- {
			ev.Rl = append(ev.Rl, &c16pb.Leaf{Name: "leaf", N: int64(n), Note: proto.String("")})
			ev.Ri = append(ev.Ri, int64(n))
		}
		g.st.presentZero += len(ev.Rl)
	case 2:
		how = "many map entries"
		if size > 100<<10 {
			size = 100 << 10
		}
		ev.Msi = map[int32]int64{}
		ev.Mss = map[string]string{}
		for n := min(size/32, 500); n > 0; n-- {
			ev.Msi[int32(n)] = 0
			ev.Mss[fmt.Sprint("key-", n)] = ""
		}
		g.st.mapEntries += 2 * len(ev.Msi)
		g.st.mapZeroVal += 2 * len(ev.Msi)
	case 3:
		how = "deep chain"
		cur := ev
		for n := 150; n > 0; n-- {
			next := &c16pb.Event{Id: "deep", Data: bigBytes(r, size/150)}
			if n%2 == 0 {
				cur.Child = next
			} else {
				cur.Choice = &c16pb.Event_CEvent{CEvent: next}
			}
			cur = next
		}
		cur.ProtoReflect().SetUnknown(g.genUnknown(cur.ProtoReflect().Descriptor(), 1))
	case 4:
		how = "large unknown field"
		var raw []byte
		raw = protowire.AppendTag(raw, 3000, protowire.BytesType)
		raw = protowire.AppendBytes(raw, bigBytes(r, size))
		ev.ProtoReflect().SetUnknown(raw)
	default:
		how = "many unknown fields"
		var raw []byte
		for n := size / 12; n > 0; n-- {
			raw = protowire.AppendTag(raw, protowire.Number(1000+n%5000), protowire.Fixed64Type)
			raw = protowire.AppendFixed64(raw, uint64(n))
		}
		ev.Leaf = &c16pb.Leaf{Name: "carrier"}
		ev.Leaf.ProtoReflect().SetUnknown(raw)
	}
	var ns []protoreflect.Message
	msgNodes(ev.ProtoReflect(), &ns)
	g.st.nodes = len(ns)
	v := wrapSchemaVal(g, ev, "large: "+how)
	v.large = true
	return v
}

// schemaGen is the per-case generator state of the class: every 3rd generated value realises the next (oneof, arm-or-unset) slot of
// Event, Legacy or structpb.Value, so that a case walks through all arms of all oneofs whatever the random draws are.
type schemaGen struct {
	n, armSlot int
}

func (sg *schemaGen) gen(r *vlib.Rand) val {
	sg.n++
	if sg.n%3 == 1 {
		// 26 slots: Event 13 (choice: unset + 12 arms) + 3 (second), Legacy 3 (pick), structpb.Value 7 (kind)
		slot := sg.armSlot % 26
		sg.armSlot++
		var tmpl proto.Message = &c16pb.Event{}
		switch {
		case slot >= 19:
			tmpl, slot = &structpb.Value{}, slot-19
		case slot >= 16:
			tmpl, slot = &c16pb.Legacy{}, slot-16
		}
		g := newPgen(r)
		g.forceArm = slot
		m := tmpl.ProtoReflect().New()
		g.fill(m, 2)
		v := finishSchemaVal(g, m.Interface(), pickUnknownMode(r), "oneof sweep")
		v.pst.armSweep = 1
		return v
	}
	switch k := r.Intn(128); {
	case k == 127:
		return genLargeSchemaVal(r) // about one value in three cases
	case k == 126:
		return genRealDescriptor(r, true)
	case k >= 122:
		return genRealDescriptor(r, false)
	}
	switch k := r.Intn(58); {
	case k < 20:
		return genSchemaOfType(r, &c16pb.Event{}, 3)
	case k < 24:
		return genSchemaOfType(r, &c16pb.Leaf{}, 3)
	case k < 32:
		return genSchemaOfType(r, &c16pb.Legacy{}, 3)
	case k < 42:
		return genFromRicher(r)
	case k < 52:
		return genSchemaOfType(r, schemaWKTs[r.Intn(len(schemaWKTs))], 3)
	default:
		return genSchemaOfType(r, schemaDescTypes[r.Intn(len(schemaDescTypes))], 3)
	}
}

// schemaStrVal puts the text s into string roles of the schema types: a plain field, a proto3 optional, a list, map key and value, a
// oneof arm, a nested message, a well-known type inside, a proto2 string with a default, an extension - and into an unknown field.
func schemaStrVal(r *vlib.Rand, s string) val {
	g := newPgen(r)
	g.strs = append(g.strs, s)
	var m proto.Message
	switch r.Intn(4) {
	case 0:
		m = &c16pb.Event{Id: s, OptS: proto.String(s), Rs: []string{s, "", s}, Mss: map[string]string{s: s}, Choice: &c16pb.Event_CS{CS: s},
			Leaf: &c16pb.Leaf{Name: s, Note: proto.String(s)}, Wrapped: wrapperspb.String(s), Mask: &fieldmaskpb.FieldMask{Paths: []string{s}}}
	case 1:
		st, err := structpb.NewStruct(map[string]any{s: s, "l": []any{s}})
		if err != nil {
			panic(harnessBug("structpb.NewStruct: " + err.Error()))
		}
		m = &c16pb.Event{St: st, Mst: map[string]*structpb.Value{s: structpb.NewStringValue(s)}, Second: &c16pb.Event_XS{XS: s},
			Mil: map[int64]*c16pb.Leaf{0: {Name: s}}, Rl: []*c16pb.Leaf{{Kids: []*c16pb.Leaf{{Name: s}}}}}
	case 2:
		l := &c16pb.Legacy{Id: proto.String(s), Label: proto.String(s), Names: map[string]string{s: s}, Pick: &c16pb.Legacy_PickS{PickS: s},
			Extra: &c16pb.Legacy_Extra{Note: proto.String(s)}}
		proto.SetExtension(l, c16pb.E_ExtNote, s)
		g.st.extensions++
		m = l
	default:
		// the text travels in an unknown field (top level and nested): an older consumer holds it without knowing it is a string
		var raw []byte
		raw = protowire.AppendTag(raw, 1, protowire.BytesType) // Event.id resp. Leaf.name of the newer schema
		raw = protowire.AppendString(raw, s)
		raw = protowire.AppendTag(raw, 2000, protowire.BytesType)
		raw = protowire.AppendString(raw, s)
		op := &c16pb.EventOpaque{}
		op.ProtoReflect().SetUnknown(raw)
		if r.Bool() {
			m = op
		} else {
			raw2 := protowire.AppendString(protowire.AppendTag(nil, 2, protowire.BytesType), s) // Leaf.n is not known to LeafOld
			old := &c16pb.EventOld{Id: s, Leaf: &c16pb.LeafOld{Name: s}}
			old.Leaf.ProtoReflect().SetUnknown(raw2)
			m = old
		}
	}
	mode := unkNone
	if top, nested := unknownCensus(m.ProtoReflect()); top+nested == 0 {
		mode = pickUnknownMode(r)
	}
	var ns []protoreflect.Message
	msgNodes(m.ProtoReflect(), &ns)
	g.st.nodes = len(ns)
	return finishSchemaVal(g, m, mode, "string carrier")
}

// schemaSized: a value whose encoding is about n bytes: in a bytes field, spread over list elements, or in an unknown field.
func schemaSized(r *vlib.Rand, n int) val {
	g := newPgen(r)
	var m proto.Message
	how := ""
	switch r.Intn(4) {
	case 0:
		how = "bytes field"
		m = &c16pb.Event{Data: r.Bytes(n)}
	case 1:
		how = "list of strings"
		ev := &c16pb.Event{}
		for left := n; left > 0; left -= 12 {
			ev.Rs = append(ev.Rs, "0123456789")
		}
		m = ev
	case 2:
		how = "proto2 optional bytes"
		m = &c16pb.Legacy{Id: proto.String(""), Blob: r.Bytes(n)}
	default:
		how = "unknown bytes field"
		op := &c16pb.EventOld{Id: "sized"}
		op.ProtoReflect().SetUnknown(protowire.AppendBytes(protowire.AppendTag(nil, 2, protowire.BytesType), r.Bytes(n)))
		m = op
	}
	v := wrapSchemaVal(g, m, fmt.Sprintf("sized %d: %s", n, how))
	return v
}

func runProtoSchema(e *vlib.Env, res *vlib.Result) {
	sg := &schemaGen{armSlot: (e.Idx / len(c16Classes)) * 16}
	runCodec(e, res, "ProtoMarshaler", sg.gen, schemaStrVal, schemaSized, func(u func() string, g func(v interface{}) string, _ bool) cqrs.CommandEventMarshaler {
		return cqrs.ProtoMarshaler{NewUUID: u, GenerateName: g}
	}, false, true)
}
