package c16

import (
	"context"
	"fmt"
	"sync"

	"github.com/ThreeDotsLabs/watermill"
	"github.com/ThreeDotsLabs/watermill/components/forwarder"
	"github.com/ThreeDotsLabs/watermill/message"

	"verifharness/vlib"
)

// errLog keeps the errors the forwarder logs (the reason of a Nack is only visible there).
type errLog struct {
	mu   sync.Mutex
	errs []string
	n    int
}

func (l *errLog) count() int {
	l.mu.Lock()
	defer l.mu.Unlock()
	return l.n
}

func (l *errLog) Error(msg string, err error, fields watermill.LogFields) {
	l.mu.Lock()
	defer l.mu.Unlock()
	l.n++
	if len(l.errs) < 8 {
		l.errs = append(l.errs, fmt.Sprintf("%s: %v", msg, err))
	}
}
func (l *errLog) Info(msg string, fields watermill.LogFields)             {}
func (l *errLog) Debug(msg string, fields watermill.LogFields)            {}
func (l *errLog) Trace(msg string, fields watermill.LogFields)            {}
func (l *errLog) With(fields watermill.LogFields) watermill.LoggerAdapter { return l }
func (l *errLog) last() []string {
	l.mu.Lock()
	defer l.mu.Unlock()
	return append([]string(nil), l.errs...)
}

// runForwarder: forwarder.Publisher -> captured envelope -> real Forwarder (real Router) -> captured output.
func runForwarder(e *vlib.Env, res *vlib.Result) {
	const nRandom = 24
	const nMsgs = nRandom + nEdgePerCase // the last nEdgePerCase messages walk the edge grid (fwd_edge.go)
	id := e.ID()
	fwdTopic := id + "-fwd-" + genStr(e.R)
	in := &vlib.Sub{Name: id + "-in"}
	out := &vlib.Pub{Name: id + "-out"}
	env := &vlib.Pub{Name: id + "-env"}
	logger := &errLog{}

	fp := forwarder.NewPublisher(env, forwarder.PublisherConfig{ForwarderTopic: fwdTopic})
	f, err := forwarder.NewForwarder(in, out, logger, forwarder.Config{ForwarderTopic: fwdTopic})
	if err != nil {
		panic(harnessBug("NewForwarder: " + err.Error()))
	}
	runDone := make(chan struct{})
	go func() {
		defer close(runDone)
		f.Run(context.Background())
	}()
	stop := func() {
		closed := make(chan struct{})
		go func() { defer close(closed); f.Close() }()
		if oc, _ := vlib.WaitClosed(closed, vlib.WD); oc != vlib.Done {
			res.Inconclusive("forwarder Close did not return (%v)", oc)
			return
		}
		if oc, _ := vlib.WaitClosed(runDone, vlib.WD); oc != vlib.Done {
			res.Inconclusive("forwarder Run did not return after Close (%v)", oc)
		}
	}
	if oc, dump := vlib.WaitClosed(f.Running(), vlib.WD); oc != vlib.Done {
		res.Inconclusive("forwarder did not start (%v)", oc)
		res.Witness = dump
		return
	}
	defer stop()
	sp := in.SubFor(fwdTopic)
	if sp == nil {
		panic(harnessBug("forwarder running without a subscription on its topic"))
	}

	var ft feat
	ft.addStr(fwdTopic)
	var sigParts []any
	var samples []any
	sent, batches, withMeta := 0, 0, 0
	var es edgeStats
	dressed := 0
	// sweep slots: 0..12 for every second message (at most 26 messages), 13..25 for the destination topic of every second batch
	sw := newSweeper(e, 26)
	for sent < nMsgs && !res.Failed() {
		k := e.R.Range(1, 3)
		dest := genNonEmpty(e.R)
		if batches%2 == 0 && batches/2 < 13 {
			dest = sw.at(13 + batches/2)
		}
		if sent >= nRandom && e.R.Bool() {
			dest = envelopeLike(e.R) // a destination topic spelled like one of the envelope's own fields
		}
		ft.addStr(dest)
		specs := make([]msgSpec, k)
		msgs := make([]*message.Message, k)
		for i := range specs {
			no := sent + i
			if no >= nRandom {
				// edge grid: UUID empty / not, payload nil / empty / bytes, metadata nil / empty / ordinary / keys spelled like
				// the envelope's own fields
				specs[i] = edgeSpec(e.R, id, (e.Idx/len(c16Classes))*nEdgePerCase+no-nRandom, dest)
			} else {
				specs[i] = genSpec(e.R)
				if no%2 == 0 && no/2 < 13 {
					applySweep(e.R, &specs[i], sw.at(no/2), e.Idx/len(c16Classes)+no/2)
				}
				// the judgement is positional (one envelope is delivered at a time), so UUIDs need not be unique: the empty
				// UUID ("UUID can be empty", message.Message godoc) and repeated UUIDs stay in
				if e.R.Bool() {
					specs[i].UUID = id + "-" + fmt.Sprint(no) + "-" + specs[i].UUID
				}
			}
			es.add(specs[i])
			ft.addSpec(specs[i])
			if len(specs[i].Meta) > 0 {
				withMeta++
			}
			msgs[i] = specs[i].build()
			sigParts = append(sigParts, dest, specs[i].String())
		}
		envBefore, outBefore := len(env.Calls()), len(out.Calls())
		var perr error
		if p := guard(func() { perr = fp.Publish(dest, msgs...) }); p != "" {
			res.Fail("panic", "forwarder.Publisher.Publish panicked: %s (topic %s, messages %v)", p, showStr(dest), specs)
			break
		}
		res.Events++
		if perr != nil {
			res.Fail("forwarder-publish-error", "forwarder.Publisher.Publish(%s, %v) failed: %v", showStr(dest), specs, perr)
			break
		}
		calls := env.Calls()[envBefore:]
		if len(calls) != 1 || calls[0].Topic != fwdTopic || len(calls[0].Msgs) != k {
			n, topic := 0, ""
			if len(calls) > 0 {
				n, topic = len(calls[0].Msgs), calls[0].Topic
			}
			res.Fail("forwarder-envelope", "Publish of %d message(s) produced %d call(s) on the wrapped publisher (first: %d envelope(s) on topic %s, want topic %s)", k, len(calls), n, showStr(topic), showStr(fwdTopic))
			break
		}
		// the input messages themselves must be untouched by the wrapping
		for i, m := range msgs {
			if d := specs[i].matches(m); d != "" {
				res.Fail("forwarder-message", "forwarder.Publisher changed the published message: %s; message was %v", d, specs[i])
			}
		}
		for i, envelope := range calls[0].Msgs {
			if res.Failed() {
				break
			}
			done := make(chan struct{})
			acked := false
			// what the broker hands to the forwarder is the carrier as the broker sees it: in half of the deliveries it has a
			// UUID of its own and broker-side metadata (incl. keys spelled like envelope fields and like the message's own keys).
			// None of that is part of the envelope, so none of it may show in the forwarded message.
			carrier := envelope
			if e.R.Bool() {
				carrier = dressCarrier(e.R, envelope, specs[i])
				dressed++
			}
			go func() {
				defer close(done)
				_, acked = sp.Deliver(carrier, 0)
			}()
			oc, dump := vlib.WaitClosed(done, vlib.WD)
			if oc == vlib.Stuck {
				res.Fail("forwarder-stuck", "the forwarder never settled the envelope of %v (process quiescent)", specs[i])
				res.Witness = dump
				break
			}
			if oc != vlib.Done {
				res.Inconclusive("envelope not settled before the watchdog")
				return
			}
			res.Events++
			got := out.Calls()[outBefore:]
			if !acked || len(got) != i+1 {
				res.Fail("forwarder-not-forwarded", "envelope of %v (topic %s): acked=%v, output publishes so far %d (want %d); forwarder log: %v; envelope payload %s",
					specs[i], showStr(dest), acked, len(got), i+1, logger.last(), clip(string(envelope.Payload), 600))
				break
			}
			c := got[i]
			res.Events += 2
			if c.Topic != dest {
				res.Fail("forwarder-topic", "message published to %s came out on %s; message %v", showStr(dest), showStr(c.Topic), specs[i])
				break
			}
			if len(c.Snaps) != 1 {
				res.Fail("forwarder-message", "output Publish carried %d messages, want 1", len(c.Snaps))
				break
			}
			sn := c.Snaps[0]
			var md message.Metadata
			if c.Msgs[0].Metadata != nil {
				md = sn.Metadata
			}
			if d := specs[i].matches(&message.Message{UUID: sn.UUID, Payload: sn.Payload, Metadata: md}); d != "" {
				res.Fail("forwarder-message", "the forwarded message differs from the published one: %s; published %v on %s; envelope payload %s", d, specs[i], showStr(dest), clip(string(envelope.Payload), 600))
				res.Witness = map[string]any{"published": specs[i], "topic": dest, "envelope": string(envelope.Payload), "forwarded": sn}
				break
			}
			if len(samples) < 2 && len(specs[i].Meta) > 0 {
				samples = append(samples, map[string]any{"topic": dest, "message": specs[i], "envelope_bytes": len(envelope.Payload)})
			}
		}
		sent += k
		batches++
	}
	res.Count("inputs", sent)
	res.Count("forwarder_publish_calls", batches)
	res.Count("forwarded_with_metadata", withMeta)
	res.Count("forwarder_carrier_with_broker_uuid_and_metadata", dressed)
	es.report(res)
	res.Count("corpus_sweep_strings", sw.used)
	ft.report(res)
	res.NonTrivial = res.Failed() || (withMeta > 0 && ft.multibyte && ft.control)
	res.Sig = vlib.Sig("forwarder", sigParts)
	if !res.Failed() {
		res.Sample = map[string]any{"forwarder_topic": fwdTopic, "messages": sent, "publish_calls": batches, "examples": samples}
	}
}
