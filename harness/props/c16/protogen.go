package c16

import (
	"bytes"
	"fmt"
	"math"
	"reflect"
	"sort"
	"strconv"
	"strings"

	"google.golang.org/protobuf/encoding/protowire"
	"google.golang.org/protobuf/proto"
	"google.golang.org/protobuf/reflect/protoreflect"
	"google.golang.org/protobuf/reflect/protoregistry"

	"verifharness/vlib"
)

// ---------------------------------------------------------------------------------------------------------
// A generator of values of ANY protobuf message type (google.golang.org/protobuf), driven by the type's descriptor.
//
// "All values of a family of Protobuf-serialisable types": a value of a message type is more than what a struct literal with a few
// fields shows. The generator walks the descriptor and draws, per field, from everything the Go API lets a caller hold:
//
//   - fields with explicit presence (proto3 `optional`, proto2 optional, oneof arms, message fields): unset / set to the ZERO value
//     (present-but-zero: "", 0, false, empty bytes, empty message) / set to a random value; proto2 defaults are not special-cased
//     (a field set to its default value is still present);
//   - real oneofs: every arm and "no arm"; the arm is drawn uniformly, and a sweep (oneofSweep) walks all arms of all oneofs;
//   - repeated fields: nil, empty non-nil (Go reflection on the generated struct; the protobuf API cannot tell them apart), one, few,
//     many elements, elements that are zero values; packed and unpacked encodings are whatever the schema says;
//   - maps: nil, empty non-nil, entries with the zero key and/or zero value (an entry {"" : ""} is still an entry), message values;
//   - floats: finite, -0, +-Inf, NaN with canonical and non-canonical payloads;
//   - enums: declared values; for open (proto3) enums also numbers the schema does not declare;
//   - extensions registered for the type (proto2);
//   - UNKNOWN FIELDS (protoreflect SetUnknown) at the top level and/or in nested messages (children, list elements, map values, oneof arms,
//     well-known types inside): field numbers the type does not declare, every wire type incl. groups, also numbers of declared fields with a
//     wire type that does not fit the declaration (which every decoder keeps as unknown).
//
// Strings are valid UTF-8 from genStr. Required fields are always set. Nil elements in lists/maps of messages are not generated
// (the Go protobuf documentation leaves them undefined).

type protoStats struct {
	unknownTop, unknownNested, unknownNodes int
	unknownGroups, unknownMismatch          int
	oneofArm, oneofUnset                    int
	presentZero                             int // fields with explicit presence set to their zero value
	presentEmptyMsg                         int
	mapZeroKey, mapZeroVal, mapEntries      int
	emptyNonNilList, emptyNonNilMap         int
	emptyNonNilBytes                        int
	nan, inf, negZero                       int
	openEnumUndeclared                      int
	extensions                              int
	nodes                                   int
	fromRicher                              int
	armSweep                                int
}

func (s *protoStats) add(o protoStats) {
	s.unknownTop += o.unknownTop
	s.unknownNested += o.unknownNested
	s.unknownNodes += o.unknownNodes
	s.unknownGroups += o.unknownGroups
	s.unknownMismatch += o.unknownMismatch
	s.oneofArm += o.oneofArm
	s.oneofUnset += o.oneofUnset
	s.presentZero += o.presentZero
	s.presentEmptyMsg += o.presentEmptyMsg
	s.mapZeroKey += o.mapZeroKey
	s.mapZeroVal += o.mapZeroVal
	s.mapEntries += o.mapEntries
	s.emptyNonNilList += o.emptyNonNilList
	s.emptyNonNilMap += o.emptyNonNilMap
	s.emptyNonNilBytes += o.emptyNonNilBytes
	s.nan += o.nan
	s.inf += o.inf
	s.negZero += o.negZero
	s.openEnumUndeclared += o.openEnumUndeclared
	s.extensions += o.extensions
	s.nodes += o.nodes
	s.fromRicher += o.fromRicher
	s.armSweep += o.armSweep
}

type pgen struct {
	r      *vlib.Rand
	strs   []string
	st     protoStats
	budget int // remaining number of message nodes this value may still get
	// shortStrings keeps strings small (big trees)
	shortStrings bool
	// forceArm >= 0: index into the flattened list (oneof, arm-or-unset) the top-level message must realise
	forceArm int
}

func newPgen(r *vlib.Rand) *pgen { return &pgen{r: r, budget: 8, forceArm: -1} }

func (g *pgen) str() string {
	var s string
	if g.shortStrings {
		s = g.r.UTF8(6)
	} else {
		s = genStr(g.r)
		if len(s) > 20000 && g.budget < 40 { // at most the first very long text of a tree is kept
			s = s[:len(s)/64]
			for len(s) > 0 && !validUTF8Tail(s) {
				s = s[:len(s)-1]
			}
		}
	}
	g.strs = append(g.strs, s)
	return s
}

func validUTF8Tail(s string) bool {
	// s was cut from a valid string: it is valid iff its last rune is complete
	for i := len(s) - 1; i >= 0 && i >= len(s)-4; i-- {
		if c := s[i]; c < 0x80 {
			return i == len(s)-1
		} else if c >= 0xC0 {
			n := 2
			if c >= 0xF0 {
				n = 4
			} else if c >= 0xE0 {
				n = 3
			}
			return len(s)-i == n
		}
	}
	return false
}

// genDouble: finite values (genFloat), and in 1 of 4 one of the non-finite / signed-zero values of IEEE 754.
func (g *pgen) double() float64 {
	if g.r.Chance(0.25) {
		switch g.r.Intn(6) {
		case 0:
			g.st.nan++
			return math.NaN()
		case 1:
			g.st.nan++
			// a NaN with another payload / sign; quiet bit set, so no platform turns it into another NaN when it is moved
			return math.Float64frombits(0x7FF8000000000000 | (g.r.Uint64() & 0x8007FFFFFFFFFFFF))
		case 2:
			g.st.inf++
			return math.Inf(1)
		case 3:
			g.st.inf++
			return math.Inf(-1)
		default:
			g.st.negZero++
			return math.Copysign(0, -1)
		}
	}
	f := genFloat(g.r)
	if f == 0 && math.Signbit(f) {
		g.st.negZero++
	}
	return f
}

func (g *pgen) float() float32 {
	if g.r.Chance(0.25) {
		switch g.r.Intn(6) {
		case 0:
			g.st.nan++
			return float32(math.NaN())
		case 1:
			g.st.nan++
			return math.Float32frombits(0x7FC00000 | (uint32(g.r.Uint64()) & 0x803FFFFF))
		case 2:
			g.st.inf++
			return float32(math.Inf(1))
		case 3:
			g.st.inf++
			return float32(math.Inf(-1))
		default:
			g.st.negZero++
			return float32(math.Copysign(0, -1))
		}
	}
	switch g.r.Intn(4) {
	case 0:
		return []float32{math.MaxFloat32, -math.MaxFloat32, math.SmallestNonzeroFloat32, 0.1, 1 << 24, 1<<24 + 2}[g.r.Intn(6)]
	case 1:
		return float32(g.r.Range(-1000, 1000))
	default:
		for {
			f := math.Float32frombits(uint32(g.r.Uint64()))
			if f == f && !math.IsInf(float64(f), 0) {
				return f
			}
		}
	}
}

func (g *pgen) int32() int32 {
	switch g.r.Intn(4) {
	case 0:
		return []int32{0, 1, -1, math.MaxInt32, math.MinInt32, 127, 128, -129}[g.r.Intn(8)]
	default:
		return int32(g.r.Uint64())
	}
}

func (g *pgen) uint32() uint32 {
	switch g.r.Intn(4) {
	case 0:
		return []uint32{0, 1, math.MaxUint32, 127, 128, 1 << 31}[g.r.Intn(6)]
	default:
		return uint32(g.r.Uint64())
	}
}

func (g *pgen) uint64() uint64 {
	switch g.r.Intn(4) {
	case 0:
		return []uint64{0, 1, math.MaxUint64, 1 << 63, 1<<53 + 1, 127, 128}[g.r.Intn(7)]
	default:
		return g.r.Uint64()
	}
}

// scalar draws a value of a non-message field kind; zero: the kind's zero value.
func (g *pgen) scalar(fd protoreflect.FieldDescriptor, zero bool) protoreflect.Value {
	switch fd.Kind() {
	case protoreflect.BoolKind:
		return protoreflect.ValueOfBool(!zero && g.r.Bool())
	case protoreflect.Int32Kind, protoreflect.Sint32Kind, protoreflect.Sfixed32Kind:
		if zero {
			return protoreflect.ValueOfInt32(0)
		}
		return protoreflect.ValueOfInt32(g.int32())
	case protoreflect.Int64Kind, protoreflect.Sint64Kind, protoreflect.Sfixed64Kind:
		if zero {
			return protoreflect.ValueOfInt64(0)
		}
		return protoreflect.ValueOfInt64(genInt64(g.r))
	case protoreflect.Uint32Kind, protoreflect.Fixed32Kind:
		if zero {
			return protoreflect.ValueOfUint32(0)
		}
		return protoreflect.ValueOfUint32(g.uint32())
	case protoreflect.Uint64Kind, protoreflect.Fixed64Kind:
		if zero {
			return protoreflect.ValueOfUint64(0)
		}
		return protoreflect.ValueOfUint64(g.uint64())
	case protoreflect.FloatKind:
		if zero {
			return protoreflect.ValueOfFloat32(0)
		}
		return protoreflect.ValueOfFloat32(g.float())
	case protoreflect.DoubleKind:
		if zero {
			return protoreflect.ValueOfFloat64(0)
		}
		return protoreflect.ValueOfFloat64(g.double())
	case protoreflect.StringKind:
		if zero {
			return protoreflect.ValueOfString("")
		}
		return protoreflect.ValueOfString(g.str())
	case protoreflect.BytesKind:
		if zero {
			return protoreflect.ValueOfBytes(nil)
		}
		if g.shortStrings {
			return protoreflect.ValueOfBytes(g.r.Payload(8))
		}
		return protoreflect.ValueOfBytes(g.r.Payload(64))
	case protoreflect.EnumKind:
		vals := fd.Enum().Values()
		if zero {
			if fd.Enum().IsClosed() { // proto2: the "zero" is the first declared value
				return protoreflect.ValueOfEnum(vals.Get(0).Number())
			}
			return protoreflect.ValueOfEnum(0)
		}
		if !fd.Enum().IsClosed() && g.r.Chance(0.25) {
			n := protoreflect.EnumNumber(g.int32())
			if vals.ByNumber(n) == nil {
				g.st.openEnumUndeclared++
			}
			return protoreflect.ValueOfEnum(n)
		}
		return protoreflect.ValueOfEnum(vals.Get(g.r.Intn(vals.Len())).Number())
	}
	panic(harnessBug("pgen.scalar: kind " + fd.Kind().String()))
}

func isMsgKind(fd protoreflect.FieldDescriptor) bool {
	return fd.Kind() == protoreflect.MessageKind || fd.Kind() == protoreflect.GroupKind
}

// single draws the value of a singular field or of one list element / map value.
func (g *pgen) single(fd protoreflect.FieldDescriptor, newMsg func() protoreflect.Message, depth int, zero bool) protoreflect.Value {
	if isMsgKind(fd) {
		m := newMsg()
		if !zero {
			g.fill(m, depth-1)
		} else {
			g.fillRequired(m, depth-1)
		}
		return protoreflect.ValueOfMessage(m)
	}
	return g.scalar(fd, zero)
}

// fillRequired sets only the required fields of m (an "empty" message of a proto2 type with required fields).
func (g *pgen) fillRequired(m protoreflect.Message, depth int) {
	g.st.nodes++
	fds := m.Descriptor().Fields()
	for i := 0; i < fds.Len(); i++ {
		fd := fds.Get(i)
		if fd.Cardinality() == protoreflect.Required {
			m.Set(fd, g.single(fd, func() protoreflect.Message { return m.NewField(fd).Message() }, depth, true))
		}
	}
}

// oneofSlots lists (oneof index, arm index or -1 for unset) over all real oneofs of a message type.
func oneofSlots(md protoreflect.MessageDescriptor) [][2]int {
	var out [][2]int
	oos := md.Oneofs()
	for i := 0; i < oos.Len(); i++ {
		if oos.Get(i).IsSynthetic() {
			continue
		}
		out = append(out, [2]int{i, -1})
		for j := 0; j < oos.Get(i).Fields().Len(); j++ {
			out = append(out, [2]int{i, j})
		}
	}
	return out
}

// fill populates m (a new, empty message) at random.
func (g *pgen) fill(m protoreflect.Message, depth int) {
	g.st.nodes++
	g.budget--
	md := m.Descriptor()
	fds := md.Fields()
	force := [2]int{-1, 0}
	if g.forceArm >= 0 {
		if slots := oneofSlots(md); len(slots) > 0 {
			force = slots[g.forceArm%len(slots)]
		}
		g.forceArm = -1
	}
	// real oneofs: one arm or none
	chosen := map[protoreflect.FullName]bool{}
	oos := md.Oneofs()
	for i := 0; i < oos.Len(); i++ {
		oo := oos.Get(i)
		if oo.IsSynthetic() {
			continue
		}
		arm := g.r.Intn(oo.Fields().Len()+1) - 1
		if force[0] == i {
			arm = force[1]
		}
		if arm >= 0 && isMsgKind(oo.Fields().Get(arm)) && (depth <= 0 || g.budget <= 0) && force[0] != i {
			arm = -1
		}
		if arm < 0 {
			g.st.oneofUnset++
			continue
		}
		g.st.oneofArm++
		chosen[oo.Fields().Get(arm).FullName()] = true
	}
	density := []float64{0.05, 0.2, 0.5}[g.r.Intn(3)]
	for i := 0; i < fds.Len(); i++ {
		fd := fds.Get(i)
		newMsg := func() protoreflect.Message { return m.NewField(fd).Message() }
		required := fd.Cardinality() == protoreflect.Required
		if oo := fd.ContainingOneof(); oo != nil && !oo.IsSynthetic() {
			if !chosen[fd.FullName()] {
				continue
			}
			zero := g.r.Chance(0.3)
			if zero {
				g.st.presentZero++
			}
			m.Set(fd, g.single(fd, newMsg, depth, zero))
			continue
		}
		if !required && !g.r.Chance(density) {
			continue
		}
		switch {
		case fd.IsMap():
			if (depth <= 0 || g.budget <= 0) && isMsgKind(fd.MapValue()) {
				continue
			}
			mp := m.Mutable(fd).Map()
			for n := []int{1, 1, 2, 3, 5}[g.r.Intn(5)]; n > 0; n-- {
				zk, zv := g.r.Chance(0.25), g.r.Chance(0.25)
				k := g.scalar(fd.MapKey(), zk).MapKey()
				if !zk && isZeroScalar(k.Value()) {
					zk = true
				}
				v := g.single(fd.MapValue(), func() protoreflect.Message { return mp.NewValue().Message() }, depth, zv)
				if !mp.Has(k) {
					g.st.mapEntries++
					if zk {
						g.st.mapZeroKey++
					}
					if zv {
						g.st.mapZeroVal++
					}
				}
				mp.Set(k, v)
			}
		case fd.IsList():
			if (depth <= 0 || g.budget <= 0) && isMsgKind(fd) {
				continue
			}
			l := m.Mutable(fd).List()
			n := []int{1, 1, 2, 3, 4, 9}[g.r.Intn(6)]
			if isMsgKind(fd) && n > 3 {
				n = 3
			}
			for ; n > 0; n-- {
				l.Append(g.single(fd, func() protoreflect.Message { return l.NewElement().Message() }, depth, g.r.Chance(0.2)))
			}
		case isMsgKind(fd):
			if (depth <= 0 || g.budget <= 0) && !required {
				continue
			}
			zero := g.r.Chance(0.2)
			if zero {
				g.st.presentEmptyMsg++
			}
			m.Set(fd, g.single(fd, newMsg, depth, zero))
		default:
			zero := fd.HasPresence() && g.r.Chance(0.35)
			if zero {
				g.st.presentZero++
			}
			m.Set(fd, g.scalar(fd, zero))
		}
	}
	// registered extensions of the type
	if md.ExtensionRanges().Len() > 0 && g.r.Bool() {
		var xts []protoreflect.ExtensionType
		protoregistry.GlobalTypes.RangeExtensionsByMessage(md.FullName(), func(xt protoreflect.ExtensionType) bool {
			xts = append(xts, xt)
			return true
		})
		sort.Slice(xts, func(i, j int) bool { return xts[i].TypeDescriptor().Number() < xts[j].TypeDescriptor().Number() })
		for _, xt := range xts {
			xd := xt.TypeDescriptor()
			if !g.r.Bool() || (isMsgKind(xd) && (depth <= 0 || g.budget <= 0)) {
				continue
			}
			g.st.extensions++
			if xd.IsList() {
				l := m.Mutable(xd).List()
				for n := g.r.Range(1, 3); n > 0; n-- {
					l.Append(g.single(xd, func() protoreflect.Message { return l.NewElement().Message() }, depth, false))
				}
				continue
			}
			m.Set(xd, g.single(xd, func() protoreflect.Message { return m.NewField(xd).Message() }, depth, g.r.Chance(0.2)))
		}
	}
}

func isZeroScalar(v protoreflect.Value) bool {
	switch x := v.Interface().(type) {
	case bool:
		return !x
	case int32:
		return x == 0
	case int64:
		return x == 0
	case uint32:
		return x == 0
	case uint64:
		return x == 0
	case string:
		return x == ""
	}
	return false
}

// msgNodes lists the populated message nodes of a tree (m first), descending through singular fields, lists, maps and extensions, in a
// deterministic order: fields by number, map entries by key.
func msgNodes(m protoreflect.Message, out *[]protoreflect.Message) {
	*out = append(*out, m)
	type fv struct {
		fd protoreflect.FieldDescriptor
		v  protoreflect.Value
	}
	var fs []fv
	m.Range(func(fd protoreflect.FieldDescriptor, v protoreflect.Value) bool {
		if (fd.IsMap() && isMsgKind(fd.MapValue())) || (!fd.IsMap() && isMsgKind(fd)) {
			fs = append(fs, fv{fd, v})
		}
		return true
	})
	sort.Slice(fs, func(i, j int) bool { return fs[i].fd.Number() < fs[j].fd.Number() })
	for _, f := range fs {
		switch {
		case f.fd.IsMap():
			var ks []protoreflect.MapKey
			f.v.Map().Range(func(k protoreflect.MapKey, _ protoreflect.Value) bool {
				ks = append(ks, k)
				return true
			})
			sort.Slice(ks, func(i, j int) bool { return mapKeyLess(ks[i], ks[j]) })
			for _, k := range ks {
				msgNodes(f.v.Map().Get(k).Message(), out)
			}
		case f.fd.IsList():
			for i := 0; i < f.v.List().Len(); i++ {
				msgNodes(f.v.List().Get(i).Message(), out)
			}
		default:
			msgNodes(f.v.Message(), out)
		}
	}
}

func mapKeyLess(a, b protoreflect.MapKey) bool {
	switch x := a.Interface().(type) {
	case bool:
		return !x && b.Bool()
	case int32, int64:
		return a.Int() < b.Int()
	case uint32, uint64:
		return a.Uint() < b.Uint()
	default:
		return a.String() < b.String()
	}
}

// unknownCensus counts the nodes of a tree that carry unknown fields: (top-level 0/1, nested nodes).
func unknownCensus(m protoreflect.Message) (top, nested int) {
	var ns []protoreflect.Message
	msgNodes(m, &ns)
	for i, n := range ns {
		if len(n.GetUnknown()) > 0 {
			if i == 0 {
				top++
			} else {
				nested++
			}
		}
	}
	return
}

// genUnknown makes a well-formed set of unknown fields for a message of type md: numbers the type does not declare (and for which no
// extension is registered), all wire types; with mismatch also numbers of declared fields with a wire type no declaration of that
// number accepts (a decoder keeps those as unknown fields, so such a value is exactly what decoding produces).
func (g *pgen) genUnknown(md protoreflect.MessageDescriptor, depth int) protoreflect.RawFields {
	taken := func(n protowire.Number) bool {
		if md.Fields().ByNumber(n) != nil {
			return true
		}
		if md.ExtensionRanges().Has(n) {
			if _, err := protoregistry.GlobalTypes.FindExtensionByNumber(md.FullName(), n); err == nil {
				return true
			}
		}
		return false
	}
	// a declared singular string/bytes/message field number on the wire as fixed32/fixed64 (a type the field was changed from)
	var cands []protowire.Number
	for i := 0; i < md.Fields().Len(); i++ {
		fd := md.Fields().Get(i)
		if (fd.Kind() == protoreflect.StringKind || fd.Kind() == protoreflect.BytesKind || fd.Kind() == protoreflect.MessageKind) && !fd.IsList() && !fd.IsMap() {
			cands = append(cands, fd.Number())
		}
	}
	return g.rawUnknown(taken, cands, depth)
}

// rawUnknown: taken tells which field numbers the message type declares; mismatch lists declared numbers whose declaration accepts
// neither fixed32 nor fixed64 on the wire.
func (g *pgen) rawUnknown(taken func(protowire.Number) bool, mismatch []protowire.Number, depth int) []byte {
	var raw []byte
	free := func() protowire.Number {
		for {
			var n protowire.Number
			switch g.r.Intn(4) {
			case 0:
				n = protowire.Number(g.r.Range(1, 120))
			case 1:
				n = protowire.Number(g.r.Range(1, 1<<29-1))
			case 2:
				n = []protowire.Number{1<<29 - 1, 18999, 20000, 536870000, 15, 16, 2047, 2048}[g.r.Intn(8)]
			default:
				n = protowire.Number(g.r.Range(1000, 5000))
			}
			if n >= 19000 && n <= 19999 { // reserved for the implementation
				continue
			}
			if taken(n) {
				continue
			}
			return n
		}
	}
	var field func(depth int)
	field = func(depth int) {
		n := free()
		k := g.r.Intn(6)
		if k == 5 && depth <= 0 {
			k = g.r.Intn(5)
		}
		switch k {
		case 0:
			raw = protowire.AppendTag(raw, n, protowire.VarintType)
			raw = protowire.AppendVarint(raw, g.uint64())
		case 1:
			raw = protowire.AppendTag(raw, n, protowire.Fixed32Type)
			raw = protowire.AppendFixed32(raw, uint32(g.r.Uint64()))
		case 2:
			raw = protowire.AppendTag(raw, n, protowire.Fixed64Type)
			raw = protowire.AppendFixed64(raw, g.r.Uint64())
		case 3, 4:
			raw = protowire.AppendTag(raw, n, protowire.BytesType)
			switch g.r.Intn(4) {
			case 0:
				raw = protowire.AppendBytes(raw, nil)
			case 1:
				raw = protowire.AppendString(raw, g.str())
			default:
				raw = protowire.AppendBytes(raw, g.r.Bytes(g.r.Range(1, 40)))
			}
		default:
			g.st.unknownGroups++
			raw = protowire.AppendTag(raw, n, protowire.StartGroupType)
			for i := g.r.Intn(3); i > 0; i-- {
				field(depth - 1)
			}
			raw = protowire.AppendTag(raw, n, protowire.EndGroupType)
		}
	}
	for i := []int{1, 1, 2, 3, 6}[g.r.Intn(5)]; i > 0; i-- {
		field(depth)
	}
	if len(mismatch) > 0 && g.r.Chance(0.2) {
		g.st.unknownMismatch++
		n := mismatch[g.r.Intn(len(mismatch))]
		if g.r.Bool() {
			raw = protowire.AppendTag(raw, n, protowire.Fixed32Type)
			raw = protowire.AppendFixed32(raw, uint32(g.r.Uint64()))
		} else {
			raw = protowire.AppendTag(raw, n, protowire.Fixed64Type)
			raw = protowire.AppendFixed64(raw, g.r.Uint64())
		}
	}
	return raw
}

// unknown placement modes
const (
	unkNone = iota
	unkTop
	unkNested
	unkBoth
	unkMany
)

// attachUnknown sets unknown fields on nodes of the tree according to mode (falls back to the top level when the tree has no nested node).
func (g *pgen) attachUnknown(m protoreflect.Message, mode int) {
	if mode == unkNone {
		return
	}
	var ns []protoreflect.Message
	msgNodes(m, &ns)
	set := func(n protoreflect.Message) {
		if len(n.GetUnknown()) == 0 {
			n.SetUnknown(g.genUnknown(n.Descriptor(), 2))
		}
	}
	nested := ns[1:]
	switch mode {
	case unkTop:
		set(m)
	case unkNested:
		if len(nested) == 0 {
			set(m)
		} else {
			set(nested[g.r.Intn(len(nested))])
		}
	case unkBoth:
		set(m)
		if len(nested) > 0 {
			set(nested[g.r.Intn(len(nested))])
		}
	default:
		for _, n := range ns {
			if g.r.Bool() {
				set(n)
			}
		}
		if len(nested) > 0 {
			set(nested[len(nested)-1]) // the deepest / last node
		}
	}
}

// goShapes turns, at random, nil lists / maps / implicit-presence bytes of generated message structs into EMPTY NON-NIL ones: the same
// protobuf value, another Go value (make([]T, 0), map[K]V{}, []byte{}), which only code that builds messages as Go structs produces.
func (g *pgen) goShapes(m protoreflect.Message) {
	var ns []protoreflect.Message
	msgNodes(m, &ns)
	for _, n := range ns {
		rv := reflect.ValueOf(n.Interface())
		if rv.Kind() != reflect.Pointer || rv.IsNil() || rv.Elem().Kind() != reflect.Struct {
			continue
		}
		st := rv.Elem()
		fds := n.Descriptor().Fields()
		for i := 0; i < st.NumField(); i++ {
			sf := st.Type().Field(i)
			tag := sf.Tag.Get("protobuf")
			if tag == "" || !sf.IsExported() {
				continue
			}
			parts := strings.Split(tag, ",")
			if len(parts) < 2 {
				continue
			}
			num, err := strconv.Atoi(parts[1])
			if err != nil {
				continue
			}
			fd := fds.ByNumber(protoreflect.FieldNumber(num))
			if fd == nil || !g.r.Chance(0.3) {
				continue
			}
			fv := st.Field(i)
			switch {
			case fd.IsMap() && fv.Kind() == reflect.Map && fv.IsNil():
				fv.Set(reflect.MakeMap(fv.Type()))
				g.st.emptyNonNilMap++
			case fd.IsList() && fv.Kind() == reflect.Slice && fv.IsNil():
				fv.Set(reflect.MakeSlice(fv.Type(), 0, g.r.Intn(3)))
				g.st.emptyNonNilList++
			case fd.Kind() == protoreflect.BytesKind && !fd.HasPresence() && !fd.IsList() && fv.Kind() == reflect.Slice && fv.IsNil():
				fv.Set(reflect.MakeSlice(fv.Type(), 0, 0))
				g.st.emptyNonNilBytes++
			}
		}
	}
}

// ---------------------------------------------------------------------------------------------------------
// comparison: proto.Equal AND deterministic re-marshalling

func detBytes(m proto.Message) []byte {
	b, err := proto.MarshalOptions{Deterministic: true}.Marshal(m)
	if err != nil {
		panic(harnessBug(fmt.Sprintf("deterministic marshal of %T: %v", m, err)))
	}
	return b
}

// protoDiff compares two messages the two ways the statement's identity can be read for protobuf values: proto.Equal (same type, same
// populated known and extension fields, same unknown fields, NaN equal to NaN) and byte equality of the deterministic encodings (which
// also separates -0 from +0 and NaNs with different payloads: the wire format carries the IEEE bits verbatim). "" when both agree that
// a and b are the same value.
func protoDiff(a, b proto.Message) string { return protoDiffDet(a, detBytes(a), b) }

// protoDiffDet is protoDiff with the deterministic encoding of a already at hand.
func protoDiffDet(a proto.Message, da []byte, b proto.Message) string {
	eq := proto.Equal(a, b)
	db := detBytes(b)
	if eq && bytes.Equal(da, db) {
		return ""
	}
	at, an := unknownCensus(a.ProtoReflect())
	bt, bn := unknownCensus(b.ProtoReflect())
	return fmt.Sprintf("proto.Equal=%v, deterministic encodings equal=%v (%s vs %s); nodes with unknown fields: top %d nested %d vs top %d nested %d",
		eq, bytes.Equal(da, db), showBytes(da), showBytes(db), at, an, bt, bn)
}

// selfCheckProto: a generated value must be a fixed point of the protobuf library itself (proto.Marshal + proto.Unmarshal into a new
// message), judged by protoDiff. Otherwise the generator made something outside the family and the harness is wrong, not watermill.
func selfCheckProto(m proto.Message) {
	b, err := proto.Marshal(m)
	if err != nil {
		panic(harnessBug(fmt.Sprintf("generated %T does not marshal: %v", m, err)))
	}
	out := m.ProtoReflect().New().Interface()
	if err := proto.Unmarshal(b, out); err != nil {
		panic(harnessBug(fmt.Sprintf("generated %T does not unmarshal: %v", m, err)))
	}
	if d := protoDiff(m, out); d != "" {
		panic(harnessBug(fmt.Sprintf("generated %T is not a fixed point of the protobuf library: %s", m, d)))
	}
}

func reportProtoStats(res *vlib.Result, p protoStats) {
	res.Count("proto_message_nodes", p.nodes)
	res.Count("proto_nodes_with_unknown_fields", p.unknownNodes)
	res.Count("proto_unknown_groups", p.unknownGroups)
	res.Count("proto_unknown_declared_number_with_other_wire_type", p.unknownMismatch)
	res.Count("proto_values_decoded_from_richer_schema", p.fromRicher)
	res.Count("proto_oneof_arm_set", p.oneofArm)
	res.Count("proto_oneof_unset", p.oneofUnset)
	res.Count("proto_oneof_sweep_values", p.armSweep)
	res.Count("proto_presence_fields_set_to_zero_value", p.presentZero)
	res.Count("proto_message_fields_present_but_empty", p.presentEmptyMsg)
	res.Count("proto_map_entries", p.mapEntries)
	res.Count("proto_map_entries_zero_key", p.mapZeroKey)
	res.Count("proto_map_entries_zero_value", p.mapZeroVal)
	res.Count("proto_lists_empty_non_nil", p.emptyNonNilList)
	res.Count("proto_maps_empty_non_nil", p.emptyNonNilMap)
	res.Count("proto_bytes_empty_non_nil", p.emptyNonNilBytes)
	res.Count("proto_floats_nan", p.nan)
	res.Count("proto_floats_inf", p.inf)
	res.Count("proto_floats_negative_zero", p.negZero)
	res.Count("proto_open_enum_undeclared_numbers", p.openEnumUndeclared)
	res.Count("proto_extension_fields_set", p.extensions)
}

// gogoLossy returns a copy of m without what gogo's struct-tag encoding of a google.golang.org/protobuf message leaves out: unknown
// fields, extension fields and proto3 `optional bytes` fields that are present but empty, at every node of the tree. (The copy is made through the wire format: proto.Clone is not faithful, its
// merge skips a -0 in a scalar field without presence.)
func gogoLossy(m proto.Message) proto.Message {
	b, err := proto.Marshal(m)
	if err != nil {
		panic(harnessBug(fmt.Sprintf("marshal of %T: %v", m, err)))
	}
	c := m.ProtoReflect().New().Interface()
	if err := proto.Unmarshal(b, c); err != nil {
		panic(harnessBug(fmt.Sprintf("unmarshal of %T: %v", m, err)))
	}
	var ns []protoreflect.Message
	msgNodes(c.ProtoReflect(), &ns)
	for _, n := range ns {
		n.SetUnknown(nil)
		var clear []protoreflect.FieldDescriptor
		n.Range(func(fd protoreflect.FieldDescriptor, v protoreflect.Value) bool {
			if fd.IsExtension() {
				clear = append(clear, fd)
			} else if fd.Kind() == protoreflect.BytesKind && fd.HasOptionalKeyword() && fd.Syntax() == protoreflect.Proto3 && len(v.Bytes()) == 0 {
				clear = append(clear, fd) // proto3 `optional bytes` present but empty: gogo predates proto3 optional and skips an empty []byte
			}
			return true
		})
		for _, fd := range clear {
			n.Clear(fd)
		}
	}
	return c
}

// stdMarshalLossy: payload does not carry v, but it is exactly the encoding of gogoLossy(v).
func stdMarshalLossy(v proto.Message, payload []byte) bool {
	got := v.ProtoReflect().New().Interface()
	if err := proto.Unmarshal(payload, got); err != nil {
		return false
	}
	if protoDiff(v, got) == "" {
		return false
	}
	return protoDiff(gogoLossy(v), got) == ""
}
