package c16

import (
	"crypto/sha256"
	"errors"
	"fmt"
	"reflect"
	"unicode/utf8"

	gogoproto "github.com/gogo/protobuf/proto"
	"google.golang.org/protobuf/encoding/protowire"

	"verifharness/vlib"
)

// ---------------------------------------------------------------------------------------------------------
// GOGO-ONLY MESSAGE TYPES: what the generators of golang/protobuf <= 1.3 and gogo/protobuf emitted - Reset / String / ProtoMessage and
// struct tags (resp. hand-written Marshal / Unmarshal methods), no ProtoReflect. They implement github.com/gogo/protobuf/proto.Message
// but NOT google.golang.org/protobuf/proto.Message: the deprecated cqrs.ProtobufMarshaler is kept for exactly these types, and its
// std-proto fallback (ProtoMarshaler) cannot handle them ("v is not proto.Message"). Whatever the marshaler remembers, retries or falls
// back to must therefore never route them away from gogo.
//
//   OldGenEvent   proto3 style, encoded by gogo through struct-tag reflection: scalars, bytes, packed and unpacked lists, a string map,
//                 a nested message (presence), a list of messages, unknown fields (XXX_unrecognized) at the top level and nested
//   OldGenCommand proto2 style (pointers = presence, one REQUIRED field: an empty payload does not decode, a value without the key does
//                 not encode), struct-tag reflection
//   OldGenRaw     encodes itself: hand-written Marshal / Unmarshal (gogo's Marshaler / Unmarshaler interfaces), strict decoder

type OldGenChild struct {
	Name                 string   `protobuf:"bytes,1,opt,name=name,proto3" json:"name,omitempty"`
	Score                int64    `protobuf:"zigzag64,2,opt,name=score,proto3" json:"score,omitempty"`
	XXX_NoUnkeyedLiteral struct{} `json:"-"`
	XXX_unrecognized     []byte   `json:"-"`
	XXX_sizecache        int32    `json:"-"`
}

func (m *OldGenChild) Reset()         { *m = OldGenChild{} }
func (m *OldGenChild) String() string { return gogoproto.CompactTextString(m) }
func (*OldGenChild) ProtoMessage()    {}

type OldGenEvent struct {
	Id                   string            `protobuf:"bytes,1,opt,name=id,proto3" json:"id,omitempty"`
	N                    int64             `protobuf:"varint,2,opt,name=n,proto3" json:"n,omitempty"`
	Tags                 []string          `protobuf:"bytes,3,rep,name=tags,proto3" json:"tags,omitempty"`
	Data                 []byte            `protobuf:"bytes,4,opt,name=data,proto3" json:"data,omitempty"`
	F                    float64           `protobuf:"fixed64,5,opt,name=f,proto3" json:"f,omitempty"`
	Attrs                map[string]string `protobuf:"bytes,6,rep,name=attrs,proto3" json:"attrs,omitempty" protobuf_key:"bytes,1,opt,name=key,proto3" protobuf_val:"bytes,2,opt,name=value,proto3"`
	Child                *OldGenChild      `protobuf:"bytes,7,opt,name=child,proto3" json:"child,omitempty"`
	Nums                 []int32           `protobuf:"varint,8,rep,packed,name=nums,proto3" json:"nums,omitempty"`
	On                   bool              `protobuf:"varint,9,opt,name=on,proto3" json:"on,omitempty"`
	Kids                 []*OldGenChild    `protobuf:"bytes,10,rep,name=kids,proto3" json:"kids,omitempty"`
	XXX_NoUnkeyedLiteral struct{}          `json:"-"`
	XXX_unrecognized     []byte            `json:"-"`
	XXX_sizecache        int32             `json:"-"`
}

func (m *OldGenEvent) Reset()         { *m = OldGenEvent{} }
func (m *OldGenEvent) String() string { return gogoproto.CompactTextString(m) }
func (*OldGenEvent) ProtoMessage()    {}

type OldGenCommand struct {
	Key                  *string  `protobuf:"bytes,1,req,name=key" json:"key,omitempty"`
	Count                *int32   `protobuf:"varint,2,opt,name=count,def=7" json:"count,omitempty"`
	Blob                 []byte   `protobuf:"bytes,3,opt,name=blob" json:"blob,omitempty"`
	Flags                []uint64 `protobuf:"varint,4,rep,name=flags" json:"flags,omitempty"`
	Ratio                *float32 `protobuf:"fixed32,5,opt,name=ratio" json:"ratio,omitempty"`
	XXX_NoUnkeyedLiteral struct{} `json:"-"`
	XXX_unrecognized     []byte   `json:"-"`
	XXX_sizecache        int32    `json:"-"`
}

func (m *OldGenCommand) Reset()         { *m = OldGenCommand{} }
func (m *OldGenCommand) String() string { return gogoproto.CompactTextString(m) }
func (*OldGenCommand) ProtoMessage()    {}

// OldGenRaw encodes itself (fields 1 string, 2 varint, 3 bytes; zero values are not encoded). Its decoder is strict: any other field
// number, a wrong wire type, a truncated field or invalid UTF-8 in the topic is an error.
type OldGenRaw struct {
	Topic string `protobuf:"bytes,1,opt,name=topic,proto3" json:"topic,omitempty"`
	Seq   uint64 `protobuf:"varint,2,opt,name=seq,proto3" json:"seq,omitempty"`
	Body  []byte `protobuf:"bytes,3,opt,name=body,proto3" json:"body,omitempty"`
}

func (m *OldGenRaw) Reset() { *m = OldGenRaw{} }
func (m *OldGenRaw) String() string {
	return fmt.Sprintf("topic:%q seq:%d body:%x", m.Topic, m.Seq, m.Body)
}
func (*OldGenRaw) ProtoMessage() {}

func (m *OldGenRaw) Marshal() ([]byte, error) {
	if !utf8.ValidString(m.Topic) {
		return nil, errors.New("c16.OldGenRaw: topic is not valid UTF-8")
	}
	var b []byte
	if m.Topic != "" {
		b = protowire.AppendString(protowire.AppendTag(b, 1, protowire.BytesType), m.Topic)
	}
	if m.Seq != 0 {
		b = protowire.AppendVarint(protowire.AppendTag(b, 2, protowire.VarintType), m.Seq)
	}
	if len(m.Body) > 0 {
		b = protowire.AppendBytes(protowire.AppendTag(b, 3, protowire.BytesType), m.Body)
	}
	return b, nil
}

func (m *OldGenRaw) Unmarshal(b []byte) error {
	*m = OldGenRaw{}
	for len(b) > 0 {
		num, typ, n := protowire.ConsumeTag(b)
		if n < 0 {
			return fmt.Errorf("c16.OldGenRaw: bad tag: %v", protowire.ParseError(n))
		}
		b = b[n:]
		switch {
		case num == 1 && typ == protowire.BytesType:
			v, n := protowire.ConsumeBytes(b)
			if n < 0 {
				return fmt.Errorf("c16.OldGenRaw: bad topic: %v", protowire.ParseError(n))
			}
			if !utf8.Valid(v) {
				return errors.New("c16.OldGenRaw: topic is not valid UTF-8")
			}
			m.Topic, b = string(v), b[n:]
		case num == 2 && typ == protowire.VarintType:
			v, n := protowire.ConsumeVarint(b)
			if n < 0 {
				return fmt.Errorf("c16.OldGenRaw: bad seq: %v", protowire.ParseError(n))
			}
			m.Seq, b = v, b[n:]
		case num == 3 && typ == protowire.BytesType:
			v, n := protowire.ConsumeBytes(b)
			if n < 0 {
				return fmt.Errorf("c16.OldGenRaw: bad body: %v", protowire.ParseError(n))
			}
			m.Body, b = append([]byte(nil), v...), b[n:]
		default:
			return fmt.Errorf("c16.OldGenRaw: unexpected field %d with wire type %d", num, typ)
		}
	}
	return nil
}

// compile-time: gogo messages ...
var _ = []gogoproto.Message{&OldGenEvent{}, &OldGenCommand{}, &OldGenRaw{}, &OldGenChild{}}

const nGogoOnlyKinds = 3

// gogoOnlyUnknown: unknown fields for the reflection-encoded types (declared numbers are <= 10).
func gogoOnlyUnknown(g *pgen) []byte {
	return g.rawUnknown(func(n protowire.Number) bool { return n <= 10 }, nil, 2)
}

func genOldGenChild(g *pgen, unk bool) *OldGenChild {
	c := &OldGenChild{}
	g.st.nodes++
	switch g.r.Intn(4) {
	case 0: // empty but present
		g.st.presentEmptyMsg++
	case 1:
		c.Name = g.str()
	default:
		c.Name, c.Score = g.str(), genInt64(g.r)
	}
	if unk {
		c.XXX_unrecognized = gogoOnlyUnknown(g)
		g.st.unknownNodes++
		g.st.unknownNested = 1
	}
	return c
}

// genGogoOnly draws a value of a gogo-only type; kind 0 OldGenEvent, 1 OldGenCommand, 2 OldGenRaw.
func genGogoOnly(r *vlib.Rand, kind int) val {
	g := newPgen(r)
	g.st.nodes++
	var m gogoproto.Message
	switch kind % nGogoOnlyKinds {
	case 0:
		ev := &OldGenEvent{}
		mode := pickUnknownMode(r)
		if r.Chance(0.1) {
			mode = unkNone // (sometimes the zero value)
		} else {
			ev.Id = g.str()
			if r.Bool() {
				ev.N = genInt64(r)
			}
			for i := r.Intn(4); i > 0; i-- {
				ev.Tags = append(ev.Tags, g.str())
			}
			ev.Data = r.Payload(48)
			if r.Bool() {
				ev.F = genFloat(r)
			}
			switch r.Intn(4) {
			case 0:
			case 1:
				ev.Attrs = map[string]string{}
				g.st.emptyNonNilMap++
			default:
				ev.Attrs = map[string]string{}
				for i := r.Range(1, 3); i > 0; i-- {
					k, v := g.str(), ""
					if r.Bool() {
						v = g.str()
					} else {
						g.st.mapZeroVal++
					}
					if k == "" {
						g.st.mapZeroKey++
					}
					ev.Attrs[k] = v
				}
				g.st.mapEntries += len(ev.Attrs)
			}
			nestedUnk := mode == unkNested || mode == unkBoth || mode == unkMany
			if r.Bool() || nestedUnk {
				ev.Child = genOldGenChild(g, nestedUnk)
			}
			for i := r.Intn(4); i > 0; i-- {
				ev.Nums = append(ev.Nums, g.int32())
			}
			ev.On = r.Bool()
			for i := r.Intn(3); i > 0; i-- {
				ev.Kids = append(ev.Kids, genOldGenChild(g, mode == unkMany && r.Bool()))
			}
		}
		if mode == unkTop || mode == unkBoth || mode == unkMany {
			ev.XXX_unrecognized = gogoOnlyUnknown(g)
			g.st.unknownNodes++
			g.st.unknownTop = 1
		}
		m = ev
	case 1:
		k := g.str()
		c := &OldGenCommand{Key: &k}
		if k == "" {
			g.st.presentZero++
		}
		if r.Bool() {
			n := g.int32()
			if r.Chance(0.3) {
				n = 0
				g.st.presentZero++
			}
			c.Count = &n
		}
		switch r.Intn(3) {
		case 0:
		case 1:
			c.Blob = []byte{} // proto2: present and empty
			g.st.emptyNonNilBytes++
		default:
			c.Blob = r.Bytes(r.Range(1, 48))
		}
		for i := r.Intn(4); i > 0; i-- {
			c.Flags = append(c.Flags, g.uint64())
		}
		if r.Bool() {
			f := float32(r.Range(-1000, 1000)) / 8
			if f == 0 {
				g.st.presentZero++
			}
			c.Ratio = &f
		}
		if r.Bool() {
			c.XXX_unrecognized = gogoOnlyUnknown(g)
			g.st.unknownNodes++
			g.st.unknownTop = 1
		}
		m = c
	default:
		raw := &OldGenRaw{Topic: g.str(), Seq: g.uint64()}
		if r.Bool() {
			raw.Body = r.Bytes(r.Range(1, 48))
		}
		if r.Chance(0.1) {
			raw = &OldGenRaw{}
		}
		m = raw
	}
	return gogoOnlyVal(g, m, "random")
}

func gogoOnlyVal(g *pgen, m gogoproto.Message, how string) val {
	selfCheckGogo(m, false)
	det := gogoDet(m)
	text := ""
	if len(det) <= 1500 {
		text = clip(fmt.Sprintf("%v", m), 1200)
	}
	t := reflect.TypeOf(m).Elem()
	kind := map[reflect.Type]int{reflect.TypeOf(OldGenEvent{}): 0, reflect.TypeOf(OldGenCommand{}): 1, reflect.TypeOf(OldGenRaw{}): 2}[t]
	return val{
		v:        m,
		fresh:    func() any { return reflect.New(t).Interface() },
		equal:    func(a, b any) bool { return gogoDiff(a.(gogoproto.Message), b.(gogoproto.Message), false) == "" },
		diff:     func(a, b any) string { return gogoDiff(a.(gogoproto.Message), b.(gogoproto.Message), false) },
		desc:     fmt.Sprintf("gogo-only:%T{%s; %d bytes sha256 %x; with unknown fields %d; %s}", m, how, len(det), sha256.Sum256(det), g.st.unknownNodes, text),
		zero:     gogoproto.Size(m) == 0,
		strs:     g.strs,
		pst:      g.st,
		gogoOnly: true,
		again:    func(r *vlib.Rand) val { return genGogoOnly(r, kind) },
	}
}

// gogoOnlyStrVal: the text s in the string roles of the gogo-only types (field, list element, map key and value, nested message, unknown field).
func gogoOnlyStrVal(r *vlib.Rand, s string) val {
	g := newPgen(r)
	g.strs = append(g.strs, s)
	g.st.nodes++
	var m gogoproto.Message
	switch r.Intn(3) {
	case 0:
		unk := protowire.AppendString(protowire.AppendTag(nil, 11, protowire.BytesType), s)
		m = &OldGenEvent{Id: s, Tags: []string{s, "", s}, Attrs: map[string]string{s: s}, Child: &OldGenChild{Name: s, XXX_unrecognized: unk},
			Kids: []*OldGenChild{{Name: s}}, XXX_unrecognized: unk}
		g.st.unknownNodes, g.st.unknownTop, g.st.unknownNested = 2, 1, 1
	case 1:
		k := s
		m = &OldGenCommand{Key: &k, XXX_unrecognized: protowire.AppendString(protowire.AppendTag(nil, 11, protowire.BytesType), s)}
		g.st.unknownNodes, g.st.unknownTop = 1, 1
	default:
		m = &OldGenRaw{Topic: s, Seq: 1}
	}
	return gogoOnlyVal(g, m, "string carrier")
}

// gogoOnlySized: a gogo-only value whose encoding is about n bytes.
func gogoOnlySized(r *vlib.Rand, n int) val {
	g := newPgen(r)
	g.st.nodes++
	var m gogoproto.Message
	switch r.Intn(3) {
	case 0:
		m = &OldGenEvent{Id: "sized", Data: r.Bytes(n)}
	case 1:
		k := "sized"
		m = &OldGenCommand{Key: &k, Blob: r.Bytes(n)}
	default:
		m = &OldGenRaw{Topic: "sized", Body: r.Bytes(n)}
	}
	v := gogoOnlyVal(g, m, fmt.Sprintf("sized %d", n))
	return v
}

// gogoOnlyRejected: a value of the same Go type as m that gogo refuses to encode (invalid UTF-8 in a proto3 string, required field
// not set): input for Marshal calls that are expected to fail.
func gogoOnlyRejected(m any) any {
	switch m.(type) {
	case *OldGenEvent:
		return &OldGenEvent{Id: "\xff\xfe", N: 1}
	case *OldGenCommand:
		n := int32(3)
		return &OldGenCommand{Count: &n}
	case *OldGenRaw:
		return &OldGenRaw{Topic: "\xc3\x28", Seq: 2}
	}
	return nil
}
