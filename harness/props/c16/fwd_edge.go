package c16

import (
	"context"
	"fmt"
	"sync"

	"github.com/ThreeDotsLabs/watermill/components/forwarder"
	"github.com/ThreeDotsLabs/watermill/message"
	"github.com/ThreeDotsLabs/watermill/pubsub/gochannel"

	"verifharness/vlib"
)

// ---------------------------------------------------------------------------------------------------------
// Edge grid of the forwarder classes: the corner values of every envelope component, crossed.
//
//	UUID:     empty | non-empty
//	payload:  nil | empty (non-nil) | bytes (random, or texts a JSON codec could take for a value: null, "", {}, [], base64)
//	metadata: nil map | empty map | ordinary | keys (and values) spelled like the envelope's own fields
//
// 2 x 3 x 4 = 24 cells; a case takes nEdgePerCase consecutive cells, so 3 cases of a class walk the whole grid.

const nEdgePerCase = 8
const nEdgeCells = 24

// names a JSON envelope codec could confuse with its own fields (encoding/json matches keys case-insensitively)
var envelopeNames = []string{
	"uuid", "payload", "metadata", "destination_topic",
	"UUID", "Payload", "Metadata", "DestinationTopic", "destinationTopic", "Destination_Topic", "Uuid",
	"metadata.uuid", "\"uuid\"", "uuid,omitempty", "topic", "destination",
}

func envelopeLike(r *vlib.Rand) string { return envelopeNames[r.Intn(len(envelopeNames))] }

var payloadTexts = []string{"null", `""`, "{}", "[]", "0", "false", `{"uuid":"x","payload":"eA==","metadata":{"a":"b"},"destination_topic":"t"}`, "eA==", "=", " "}

func edgeSpec(r *vlib.Rand, id string, g int, dest string) msgSpec {
	cell := g % nEdgeCells
	s := msgSpec{Meta: map[string]string{}}
	if cell%2 == 1 {
		s.UUID = id + "-edge-" + fmt.Sprint(g)
		if r.Chance(0.3) {
			s.UUID = envelopeLike(r)
		}
	}
	switch (cell / 2) % 3 {
	case 0:
		s.NilPay = true
	case 1:
		s.Payload = []byte{}
	default:
		if r.Bool() {
			s.Payload = []byte(payloadTexts[r.Intn(len(payloadTexts))])
		} else {
			s.Payload = r.Bytes(r.Range(1, 40))
		}
	}
	switch (cell / 6) % 4 {
	case 0:
		s.NilMeta, s.Literal = true, true
	case 1:
		s.Literal = r.Bool()
	case 2:
		for len(s.Meta) == 0 {
			s.Meta = genMeta(r)
		}
		s.Literal = r.Bool()
	default:
		for n := r.Range(1, 4); n > 0; n-- {
			var v string
			switch r.Intn(6) {
			case 0:
				v = ""
			case 1:
				v = dest
			case 2:
				v = payloadTexts[r.Intn(len(payloadTexts))]
			case 3:
				v = envelopeLike(r)
			default:
				v = genStr(r)
			}
			s.Meta[envelopeLike(r)] = v
		}
		s.Literal = r.Bool()
	}
	return s
}

// edgeStats counts the corner values among the messages of a forwarder case (random and grid messages alike).
type edgeStats struct {
	emptyUUID, nilPayload, emptyPayload, nilMeta, emptyMeta, envKeys, bare int
}

func (es *edgeStats) add(s msgSpec) {
	if s.UUID == "" {
		es.emptyUUID++
	}
	switch {
	case s.NilPay:
		es.nilPayload++
	case len(s.Payload) == 0:
		es.emptyPayload++
	}
	switch {
	case s.NilMeta:
		es.nilMeta++
	case len(s.Meta) == 0:
		es.emptyMeta++
	}
	if s.UUID == "" && len(s.Payload) == 0 && len(s.Meta) == 0 {
		es.bare++
	}
	for k := range s.Meta {
		for _, n := range envelopeNames {
			if k == n {
				es.envKeys++
				return
			}
		}
	}
}

func (es *edgeStats) report(res *vlib.Result) {
	res.Count("forwarder_msgs_empty_uuid", es.emptyUUID)
	res.Count("forwarder_msgs_nil_payload", es.nilPayload)
	res.Count("forwarder_msgs_empty_payload", es.emptyPayload)
	res.Count("forwarder_msgs_nil_metadata", es.nilMeta)
	res.Count("forwarder_msgs_empty_metadata", es.emptyMeta)
	res.Count("forwarder_msgs_metadata_keys_like_envelope_fields", es.envKeys)
	res.Count("forwarder_msgs_with_nothing_at_all", es.bare)
}

// dressCarrier returns the envelope message as a broker could hand it to the forwarder: same payload (the envelope), but the
// carrier has its own UUID and carries broker-side metadata. The forwarded message is defined by the envelope alone.
func dressCarrier(r *vlib.Rand, envelope *message.Message, spec msgSpec) *message.Message {
	c := message.NewMessage("carrier-"+genStr(r), envelope.Payload)
	if r.Chance(0.2) {
		c.UUID = ""
	}
	for k, v := range envelope.Metadata {
		c.Metadata.Set(k, v)
	}
	for n := r.Range(1, 3); n > 0; n-- {
		c.Metadata.Set(envelopeLike(r), genStr(r))
	}
	c.Metadata.Set("x-broker-partition", fmt.Sprint(r.Intn(8)))
	for k, v := range spec.Meta { // the message's own keys with other values
		if r.Bool() {
			c.Metadata.Set(k, "carrier:"+v)
		}
	}
	return c
}

// ---------------------------------------------------------------------------------------------------------
// class forwarder/pubsub: the whole way through public API only - forwarder.Publisher -> GoChannel (forwarder topic) ->
// Forwarder -> GoChannel (destination topic) -> a plain subscriber.
//
// GoChannel does not promise an order between the messages of one Publish call, and messages with an empty UUID cannot be told
// apart by UUID, so a batch is judged as a multiset: every message that arrives on the destination topic must coincide
// (UUID, payload bytes, metadata key/value set) with a not yet matched published one.

func runForwarderPubSub(e *vlib.Env, res *vlib.Result) {
	const nRandom = 12
	const nMsgs = nRandom + nEdgePerCase
	id := e.ID()
	fwdTopic := id + "-fwd-" + genStr(e.R)
	logger := &errLog{}
	ps := gochannel.NewGoChannel(gochannel.Config{}, logger)

	fp := forwarder.NewPublisher(ps, forwarder.PublisherConfig{ForwarderTopic: fwdTopic})
	f, err := forwarder.NewForwarder(ps, ps, logger, forwarder.Config{ForwarderTopic: fwdTopic})
	if err != nil {
		panic(harnessBug("NewForwarder: " + err.Error()))
	}
	runDone := make(chan struct{})
	go func() {
		defer close(runDone)
		f.Run(context.Background())
	}()
	stop := func() {
		closed := make(chan struct{})
		go func() { defer close(closed); f.Close(); ps.Close() }()
		if oc, _ := vlib.WaitClosed(closed, vlib.WD); oc != vlib.Done {
			res.Inconclusive("forwarder / GoChannel Close did not return (%v)", oc)
			return
		}
		if oc, _ := vlib.WaitClosed(runDone, vlib.WD); oc != vlib.Done {
			res.Inconclusive("forwarder Run did not return after Close (%v)", oc)
		}
	}
	if oc, dump := vlib.WaitClosed(f.Running(), vlib.WD); oc != vlib.Done {
		res.Inconclusive("forwarder did not start (%v)", oc)
		res.Witness = dump
		return
	}
	defer stop()

	var ft feat
	ft.addStr(fwdTopic)
	var es edgeStats
	var sigParts []any
	var samples []any
	sent, batches, withMeta := 0, 0, 0
	for sent < nMsgs && !res.Failed() {
		k := e.R.Range(1, 3)
		dest := genNonEmpty(e.R)
		if sent >= nRandom && e.R.Bool() {
			dest = envelopeLike(e.R)
		}
		dest = id + "/" + dest // one GoChannel per case, but keep the destination apart from the forwarder topic
		ft.addStr(dest)
		specs := make([]msgSpec, k)
		msgs := make([]*message.Message, k)
		for i := range specs {
			no := sent + i
			if no >= nRandom {
				specs[i] = edgeSpec(e.R, id, (e.Idx/len(c16Classes))*nEdgePerCase+no-nRandom+nEdgeCells/2, dest)
			} else {
				specs[i] = genSpec(e.R)
				if e.R.Bool() {
					specs[i].UUID = id + "-" + fmt.Sprint(no) + "-" + specs[i].UUID
				}
			}
			es.add(specs[i])
			ft.addSpec(specs[i])
			if len(specs[i].Meta) > 0 {
				withMeta++
			}
			msgs[i] = specs[i].build()
			sigParts = append(sigParts, dest, specs[i].String())
		}

		// a plain subscriber on the destination topic, before anything is published (GoChannel is not persistent)
		ctx, cancel := context.WithCancel(context.Background())
		outCh, serr := ps.Subscribe(ctx, dest)
		if serr != nil {
			cancel()
			panic(harnessBug("GoChannel.Subscribe: " + serr.Error()))
		}
		var mu sync.Mutex
		var got []*message.Message
		recvDone := make(chan struct{})
		go func() {
			defer close(recvDone)
			for m := range outCh {
				mu.Lock()
				got = append(got, m)
				mu.Unlock()
				m.Ack()
			}
		}()
		endSub := func() bool {
			cancel()
			if oc, _ := vlib.WaitClosed(recvDone, vlib.WD); oc != vlib.Done {
				res.Inconclusive("the subscription on the destination topic did not end after its context was cancelled (%v)", oc)
				return false
			}
			return true
		}

		errsBefore := logger.count()
		var perr error
		if p := guard(func() { perr = fp.Publish(dest, msgs...) }); p != "" {
			res.Fail("panic", "forwarder.Publisher.Publish panicked: %s (topic %s, messages %v)", p, showStr(dest), specs)
			endSub()
			break
		}
		res.Events++
		if perr != nil {
			res.Fail("forwarder-publish-error", "forwarder.Publisher.Publish(%s, %v) over GoChannel failed: %v", showStr(dest), specs, perr)
			endSub()
			break
		}
		for i, m := range msgs {
			if d := specs[i].matches(m); d != "" {
				res.Fail("forwarder-message", "forwarder.Publisher changed the published message: %s; message was %v", d, specs[i])
			}
		}
		// all k messages arrive, or the forwarder reports an error (it would then nack and GoChannel would redeliver for ever),
		// or nothing can happen any more
		oc, dump := vlib.WaitUntil(func() bool {
			mu.Lock()
			defer mu.Unlock()
			return len(got) >= k || logger.count() > errsBefore
		}, vlib.WD)
		mu.Lock()
		arrived := append([]*message.Message(nil), got...)
		mu.Unlock()
		if res.Failed() {
			endSub()
			break
		}
		if len(arrived) < k {
			switch {
			case logger.count() > errsBefore:
				res.Fail("forwarder-not-forwarded", "published %v on %s through GoChannel: %d of %d arrived and the forwarder logged: %v", specs, showStr(dest), len(arrived), k, logger.last())
			case oc == vlib.Stuck:
				res.Fail("forwarder-not-forwarded", "published %v on %s through GoChannel: only %d of %d arrived on the destination topic (process quiescent)", specs, showStr(dest), len(arrived), k)
				res.Witness = dump
			default:
				res.Inconclusive("forwarded messages did not arrive before the watchdog")
			}
			endSub()
			break
		}
		if !endSub() {
			return
		}
		mu.Lock()
		arrived = append([]*message.Message(nil), got...)
		mu.Unlock()
		res.Events += len(arrived)
		// multiset comparison
		matched := make([]bool, k)
		for _, m := range arrived {
			found := false
			for i := range specs {
				if !matched[i] && specs[i].matches(m) == "" {
					matched[i], found = true, true
					break
				}
			}
			if !found {
				why := ""
				for i := range specs {
					if !matched[i] {
						why = specs[i].matches(m)
						break
					}
				}
				res.Fail("forwarder-message", "a message arrived on %s that is none of the (remaining) published ones: {uuid=%s payload=%s metadata=%s}; published %v; against the first unmatched one: %s",
					showStr(dest), showStr(m.UUID), showBytes(m.Payload), showMeta(m.Metadata), specs, why)
				res.Witness = map[string]any{"published": specs, "topic": dest, "arrived": vlib.Snap(m)}
				break
			}
		}
		if !res.Failed() && len(arrived) != k {
			res.Fail("forwarder-message", "%d messages were published on %s, %d arrived", k, showStr(dest), len(arrived))
		}
		if len(samples) < 2 && len(specs[0].Meta) > 0 {
			samples = append(samples, map[string]any{"topic": dest, "message": specs[0]})
		}
		sent += k
		batches++
	}
	res.Count("inputs", sent)
	res.Count("forwarder_publish_calls", batches)
	res.Count("forwarded_with_metadata", withMeta)
	res.Count("forwarded_through_gochannel", sent)
	es.report(res)
	ft.report(res)
	res.NonTrivial = res.Failed() || (withMeta > 0 && ft.multibyte && ft.control)
	res.Sig = vlib.Sig("forwarder/pubsub", sigParts)
	if !res.Failed() {
		res.Sample = map[string]any{"forwarder_topic": fwdTopic, "messages": sent, "publish_calls": batches, "examples": samples}
	}
}
