package vlib

import (
	"context"
	"errors"
	"testing"
	"time"

	"github.com/ThreeDotsLabs/watermill"
	"github.com/ThreeDotsLabs/watermill/message"
)

func TestSmokeRouterScripted(t *testing.T) {
	sub := &Sub{Name: "s"}
	pub := &Pub{Name: "p"}
	pub.Script = func(no int, topic string, msgs []*message.Message) error {
		if no == 0 {
			return errors.New("boom")
		}
		return nil
	}
	r, err := message.NewRouter(message.RouterConfig{CloseTimeout: time.Hour}, watermill.NopLogger{})
	if err != nil {
		t.Fatal(err)
	}
	calls := 0
	r.AddHandler("h", "in", sub, "out", pub, func(m *message.Message) ([]*message.Message, error) {
		calls++
		return []*message.Message{message.NewMessage("o", nil)}, nil
	})
	runDone := make(chan struct{})
	go func() { r.Run(context.Background()); close(runDone) }()
	if oc, d := WaitClosed(r.Running(), WD); oc != Done {
		t.Fatalf("running: %v\n%s", oc, d)
	}
	sp := sub.SubFor("in")
	copies, acked := sp.Deliver(message.NewMessage("m1", []byte("x")), 5)
	if !acked || len(copies) != 2 || calls != 2 || len(pub.Calls()) != 2 {
		t.Fatalf("acked=%v copies=%d calls=%d pubcalls=%d", acked, len(copies), calls, len(pub.Calls()))
	}
	// nothing more happens: Settle must report quiescence (CloseTimeout frame absent while not closing)
	if oc, d := Settle(WaitOpts{Watchdog: 10 * time.Second}); oc != Stuck {
		t.Fatalf("settle: %v\n%s", oc, d)
	}
	closeDone := make(chan struct{})
	go func() { r.Close(); close(closeDone) }()
	if oc, d := WaitClosed(closeDone, WD); oc != Done {
		t.Fatalf("close: %v\n%s", oc, d)
	}
	if oc, d := WaitClosed(runDone, WD); oc != Done {
		t.Fatalf("run: %v\n%s", oc, d)
	}
	if sub.CloseCalls.Load() < 1 || pub.CloseCalls.Load() < 1 {
		t.Fatalf("close calls %d %d", sub.CloseCalls.Load(), pub.CloseCalls.Load())
	}
}

func TestSmokeStuckDetected(t *testing.T) {
	ch := make(chan struct{})
	go func() { <-ch }()
	t0 := time.Now()
	oc, _ := WaitUntil(func() bool { return false }, WaitOpts{Watchdog: 10 * time.Second})
	if oc != Stuck {
		t.Fatalf("got %v", oc)
	}
	t.Logf("stuck detected in %v", time.Since(t0))
	close(ch)
}
