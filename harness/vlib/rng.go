// Package vlib is the shared machinery of the runtime-monitoring harness:
// seeded PRNGs, logical clock, quiescence detector, hook controller, scripted
// Pub/Sub ends, verdict/result types and the child-process case runner.
package vlib

import (
	"hash/fnv"
	"unicode/utf8"
)

// Rand is a splitmix64 PRNG. It is NOT goroutine-safe: every goroutine derives its own with Fork.
type Rand struct{ s uint64 }

func mix(z uint64) uint64 {
	z += 0x9e3779b97f4a7c15
	z = (z ^ (z >> 30)) * 0xbf58476d1ce4e5b9
	z = (z ^ (z >> 27)) * 0x94d049bb133111eb
	return z ^ (z >> 31)
}

// HashStr is a stable 64-bit hash of a string.
func HashStr(s string) uint64 {
	h := fnv.New64a()
	h.Write([]byte(s))
	// finalised: the low bits of a bare FNV-1a value of s+suffix are a function of the low bits of the value of s, so
	// choices derived as HashStr(id+"/a")%4 and HashStr(id+"/b")%4 would be correlated
	return mix(h.Sum64())
}

// NewRand derives the PRNG of case idx of a property from the run seed.
func NewRand(seed uint64, prop string, idx int) *Rand {
	return &Rand{s: mix(mix(seed)^HashStr(prop)) ^ mix(uint64(idx)+0x1234567)}
}

func (r *Rand) Uint64() uint64 {
	r.s += 0x9e3779b97f4a7c15
	z := r.s
	z = (z ^ (z >> 30)) * 0xbf58476d1ce4e5b9
	z = (z ^ (z >> 27)) * 0x94d049bb133111eb
	return z ^ (z >> 31)
}

// Fork returns an independent PRNG (for another goroutine).
func (r *Rand) Fork() *Rand { return &Rand{s: mix(r.Uint64())} }

// Intn returns a value in [0,n). n<=0 yields 0.
func (r *Rand) Intn(n int) int {
	if n <= 0 {
		return 0
	}
	return int(r.Uint64() % uint64(n))
}

// Range returns a value in [lo,hi].
func (r *Rand) Range(lo, hi int) int { return lo + r.Intn(hi-lo+1) }

func (r *Rand) Bool() bool { return r.Uint64()&1 == 1 }

// Chance is true with probability p.
func (r *Rand) Chance(p float64) bool { return r.Float() < p }

func (r *Rand) Float() float64 { return float64(r.Uint64()>>11) / float64(1<<53) }

// Bytes returns n random bytes.
func (r *Rand) Bytes(n int) []byte {
	b := make([]byte, n)
	for i := range b {
		b[i] = byte(r.Uint64())
	}
	return b
}

var runePool = []rune{0, 1, '\t', '\n', '\r', 0x1b, ' ', '"', '\'', '\\', '/', '{', '}', ':', ',', '=', 'a', 'b', 'Z', '0', '9', '_', '-', '.',
	'%', '%', '<', '>', '&', '[', ']', '*', '?', '$', '+', '|', '#', ';', '`', '~',
	0x7f, 0x80, 0xa0, 0xe9, 0x3b1, 0x7ff, 0x800, 0x20ac, 0x4e16, 0xd7ff, 0xe000, 0xfeff, 0xfffd, 0xffff, 0x10000, 0x1f600, 0x10ffff, 0x2028, 0x2029}

// UTF8 returns a valid-UTF-8 string of up to maxRunes runes mixing empty, control, ASCII and multi-byte characters.
func (r *Rand) UTF8(maxRunes int) string {
	n := 0
	switch r.Intn(6) {
	case 0:
		n = 0
	case 1:
		n = 1
	default:
		n = r.Intn(maxRunes + 1)
	}
	out := make([]rune, 0, n)
	for i := 0; i < n; i++ {
		var c rune
		if r.Chance(0.6) {
			c = runePool[r.Intn(len(runePool))]
		} else {
			c = rune(r.Intn(0x110000))
		}
		if !utf8.ValidRune(c) {
			c = 0xfffd
		}
		out = append(out, c)
		// text that some layer might re-interpret: printf verbs, escapes written out, entities
		if i+2 < n && r.Chance(0.06) {
			frag := []rune([]string{"%s", "%d", "%v", "%%", "%!", "\\n", "\\u", "&#"}[r.Intn(8)])
			out = append(out, frag...)
			i += 2
		}
	}
	return string(out)
}

// Payload returns random payload bytes: nil, empty, or up to max bytes.
func (r *Rand) Payload(max int) []byte {
	switch r.Intn(8) {
	case 0:
		return nil
	case 1:
		return []byte{}
	}
	return r.Bytes(r.Intn(max + 1))
}

// Perm returns a random permutation of 0..n-1.
func (r *Rand) Perm(n int) []int {
	p := make([]int, n)
	for i := range p {
		p[i] = i
	}
	for i := n - 1; i > 0; i-- {
		j := r.Intn(i + 1)
		p[i], p[j] = p[j], p[i]
	}
	return p
}
