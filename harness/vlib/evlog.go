package vlib

import (
	"fmt"
	"sync"
	"sync/atomic"
)

var clock atomic.Uint64

// Now returns the next value of the process-wide logical clock. A stamp taken by a goroutine
// before it invokes a call is smaller than any stamp taken after something that call caused.
func Now() uint64 { return clock.Add(1) }

// Event is one boundary event.
type Event struct {
	Seq  uint64 `json:"seq"`
	Kind string `json:"k"`
	A    string `json:"a,omitempty"`
	B    string `json:"b,omitempty"`
	N    int64  `json:"n,omitempty"`
}

func (e Event) String() string { return fmt.Sprintf("%d:%s(%s,%s,%d)", e.Seq, e.Kind, e.A, e.B, e.N) }

// Log is a goroutine-safe append-only event log.
type Log struct {
	mu sync.Mutex
	ev []Event
}

// Add stamps and appends an event; it returns the stamp.
func (l *Log) Add(kind, a, b string, n int64) uint64 {
	l.mu.Lock()
	s := Now()
	l.ev = append(l.ev, Event{Seq: s, Kind: kind, A: a, B: b, N: n})
	l.mu.Unlock()
	return s
}

// Events returns a copy of the log.
func (l *Log) Events() []Event {
	l.mu.Lock()
	defer l.mu.Unlock()
	return append([]Event(nil), l.ev...)
}

func (l *Log) Len() int {
	l.mu.Lock()
	defer l.mu.Unlock()
	return len(l.ev)
}

// Tail returns up to n last events as strings (for witnesses).
func (l *Log) Tail(n int) []string {
	ev := l.Events()
	if len(ev) > n {
		ev = ev[len(ev)-n:]
	}
	out := make([]string, len(ev))
	for i, e := range ev {
		out[i] = e.String()
	}
	return out
}
