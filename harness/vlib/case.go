package vlib

import (
	"bufio"
	"encoding/json"
	"flag"
	"fmt"
	"os"
	"runtime/debug"
	"sort"
	"time"
)

// Verdicts.
const (
	Held         = "held"
	Violated     = "violated"
	Inconcl      = "inconclusive"
	Unreached    = "unreached"
	HarnessError = "harness_error"
)

// Result of one case.
type Result struct {
	Verdict    string         `json:"verdict"`
	Clause     string         `json:"clause,omitempty"` // which clause of the property failed (stable id, used to match known findings)
	Reason     string         `json:"reason,omitempty"`
	Class      string         `json:"class,omitempty"` // workload class of the case (stable id)
	Sig        string         `json:"sig,omitempty"`   // distinctness signature: config + program shape + interleaving fingerprint
	NonTrivial bool           `json:"nontrivial"`
	Events     int            `json:"events"`
	Hooks      map[string]int `json:"hooks,omitempty"`
	Counters   map[string]int `json:"counters,omitempty"`
	Witness    any            `json:"witness,omitempty"`
	Sample     any            `json:"sample,omitempty"`
	Spec       any            `json:"spec,omitempty"`
}

// Count adds to a named counter.
func (r *Result) Count(name string, n int) {
	if r.Counters == nil {
		r.Counters = map[string]int{}
	}
	r.Counters[name] += n
}

// Fail marks the result violated (first failure wins).
func (r *Result) Fail(clause, format string, args ...any) {
	if r.Verdict == Violated {
		return
	}
	r.Verdict = Violated
	r.Clause = clause
	r.Reason = fmt.Sprintf(format, args...)
}

// Inconclusive marks the result inconclusive unless already violated.
func (r *Result) Inconclusive(format string, args ...any) {
	if r.Verdict == Violated {
		return
	}
	r.Verdict = Inconcl
	r.Reason = fmt.Sprintf(format, args...)
}

// Failed reports whether the case is already violated.
func (r *Result) Failed() bool { return r.Verdict == Violated }

// Env is what a case gets.
type Env struct {
	Prop string
	Tier string
	Seed uint64
	Idx  int
	R    *Rand
}

// ID is a unique prefix for names/UUIDs of this case.
func (e *Env) ID() string { return fmt.Sprintf("%s.%d.%d", e.Prop, e.Seed, e.Idx) }

// Prop is a registered property workload.
type Prop struct {
	ID string
	// Cases returns the number of cases of a tier (fixed by tier, not by time).
	Cases func(tier string) int
	// Run executes case idx and judges it.
	Run func(e *Env) Result
	// Meta describes the rule for non-triviality and other evidence text.
	Rule        string
	Assumptions []string
	Level       string
	// RaceIsViolation: race reports with a watermill frame fail this property.
	RaceIsViolation bool
}

var registry = map[string]*Prop{}

// Register adds a property workload.
func Register(p *Prop) { registry[p.ID] = p }

// Lookup finds one.
func Lookup(id string) *Prop { return registry[id] }

// IDs lists registered properties.
func IDs() []string {
	var ids []string
	for k := range registry {
		ids = append(ids, k)
	}
	sort.Strings(ids)
	return ids
}

type line struct {
	T string  `json:"t"`
	I int     `json:"i"`
	R *Result `json:"r,omitempty"`
	N int     `json:"n,omitempty"`
	S float64 `json:"s,omitempty"`
}

// ChildMain is the entry point of the child binary.
func ChildMain() {
	prop := flag.String("prop", "", "property id")
	tier := flag.String("tier", "quick", "tier")
	seed := flag.Uint64("seed", 1, "seed")
	shard := flag.Int("shard", 0, "shard index")
	nshards := flag.Int("nshards", 1, "number of shards")
	start := flag.Int("start", 0, "first case index to consider")
	only := flag.Int("only", -1, "run only this case index")
	repeat := flag.Int("repeat", 1, "repeat count for -only")
	out := flag.String("out", "", "output file (JSON lines)")
	meta := flag.Bool("meta", false, "print property meta as JSON and exit")
	flag.Parse()

	p := Lookup(*prop)
	if p == nil {
		fmt.Fprintf(os.Stderr, "unknown property %q (have %v)\n", *prop, IDs())
		os.Exit(2)
	}
	if *meta {
		json.NewEncoder(os.Stdout).Encode(map[string]any{
			"id": p.ID, "cases": p.Cases(*tier), "rule": p.Rule, "assumptions": p.Assumptions, "level": p.Level, "race_is_violation": p.RaceIsViolation,
		})
		return
	}
	var w *bufio.Writer
	var f *os.File
	if *out != "" {
		var err error
		f, err = os.OpenFile(*out, os.O_CREATE|os.O_WRONLY|os.O_APPEND, 0o644)
		if err != nil {
			fmt.Fprintln(os.Stderr, err)
			os.Exit(2)
		}
		w = bufio.NewWriter(f)
	} else {
		w = bufio.NewWriter(os.Stdout)
	}
	emit := func(l line) {
		b, _ := json.Marshal(l)
		w.Write(b)
		w.WriteByte('\n')
		w.Flush()
		if f != nil {
			f.Sync()
		}
	}
	n := p.Cases(*tier)
	runOne := func(idx int) {
		emit(line{T: "B", I: idx})
		t0 := time.Now()
		res := runCase(p, &Env{Prop: p.ID, Tier: *tier, Seed: *seed, Idx: idx, R: NewRand(*seed, p.ID, idx)})
		if idx >= 64 && res.Verdict != Violated {
			res.Sample = nil // keep the output small: samples only from the first cases
		}
		emit(line{T: "E", I: idx, R: &res, S: time.Since(t0).Seconds()})
	}
	if *only >= 0 {
		for i := 0; i < *repeat; i++ {
			runOne(*only)
		}
		return
	}
	for idx := *start; idx < n; idx++ {
		if idx%*nshards != *shard {
			continue
		}
		runOne(idx)
	}
	emit(line{T: "D", N: n})
}

func runCase(p *Prop, e *Env) (res Result) {
	defer func() {
		if r := recover(); r != nil {
			res = Result{Verdict: HarnessError, Reason: fmt.Sprintf("panic in case goroutine: %v\n%s", r, debug.Stack())}
		}
	}()
	res = p.Run(e)
	if res.Verdict == "" {
		res.Verdict = Held
	}
	return res
}

// Sig hashes its parts into a short distinctness signature.
func Sig(parts ...any) string {
	var b []byte
	for _, p := range parts {
		b = append(b, fmt.Sprintf("%v|", p)...)
	}
	return fmt.Sprintf("%016x", HashStr(string(b)))
}

// TierN picks a case count by tier.
func TierN(tier string, quick, thorough int) int {
	if tier == "thorough" {
		return thorough
	}
	return quick
}

// IsClosed reports without blocking whether ch is closed (or has a value ready).
func IsClosed(ch <-chan struct{}) bool {
	select {
	case <-ch:
		return true
	default:
		return false
	}
}

// SortedStrings returns a sorted copy.
func SortedStrings(s []string) []string {
	o := append([]string(nil), s...)
	sort.Strings(o)
	return o
}

// WD is the default wait option set (60 s watchdog).
var WD = WaitOpts{Watchdog: 40 * time.Second}
