package vlib

import (
	"runtime"
	"sort"
	"sync"
	"sync/atomic"
	"time"

	"github.com/ThreeDotsLabs/watermill/verifhook"
)

// Ctl is the schedule controller installed on watermill's verifhook points for one case.
type Ctl struct {
	mu     sync.Mutex
	counts map[string]int
	fp     uint64
	rules  []*Park
	seed   uint64
	ctr    atomic.Uint64
	yieldP float64
	maxUs  int
	filter func(point, a, b string) bool
	obs    func(point, a, b string)
}

// Park is a rule that blocks the n-th matching arrival at a hook point until Release.
type Park struct {
	point   string
	match   func(a, b string) bool
	nth     int
	seen    int
	used    bool
	arrived chan struct{}
	release chan struct{}
	relOnce sync.Once
	A, B    string
}

// NewCtl installs a controller. yieldP is the probability of a perturbation (Gosched x0..3 or a
// sleep up to maxUs microseconds) at every arrival.
func NewCtl(seed uint64, yieldP float64, maxUs int) *Ctl {
	c := &Ctl{counts: map[string]int{}, seed: seed, yieldP: yieldP, maxUs: maxUs}
	verifhook.Set(c.at)
	return c
}

// Observe installs a callback invoked at every arrival (before any park). It must be goroutine-safe.
func (c *Ctl) Observe(f func(point, a, b string)) { c.mu.Lock(); c.obs = f; c.mu.Unlock() }

// Filter restricts counting/perturbation to arrivals satisfying f (used to ignore stragglers of earlier cases).
func (c *Ctl) Filter(f func(point, a, b string) bool) { c.mu.Lock(); c.filter = f; c.mu.Unlock() }

// Uninstall removes the controller and releases everything parked.
func (c *Ctl) Uninstall() {
	verifhook.Set(nil)
	c.mu.Lock()
	rules := c.rules
	c.mu.Unlock()
	for _, p := range rules {
		p.Release()
	}
}

// ParkAt registers a rule: the nth (0-based) arrival at point whose ids satisfy match (nil = any) parks.
func (c *Ctl) ParkAt(point string, match func(a, b string) bool, nth int) *Park {
	p := &Park{point: point, match: match, nth: nth, arrived: make(chan struct{}), release: make(chan struct{})}
	c.mu.Lock()
	c.rules = append(c.rules, p)
	c.mu.Unlock()
	return p
}

// Arrived is closed when a goroutine is parked by this rule.
func (p *Park) Arrived() <-chan struct{} { return p.arrived }

// HasArrived reports without blocking.
func (p *Park) HasArrived() bool {
	select {
	case <-p.arrived:
		return true
	default:
		return false
	}
}

// Release lets the parked goroutine (now or when it arrives) continue. Idempotent.
func (p *Park) Release() { p.relOnce.Do(func() { close(p.release) }) }

func (c *Ctl) at(point, a, b string) {
	c.mu.Lock()
	if c.filter != nil && !c.filter(point, a, b) {
		c.mu.Unlock()
		return
	}
	c.counts[point]++
	c.fp = mix(c.fp ^ HashStr(point))
	obs := c.obs
	var hit *Park
	for _, p := range c.rules {
		if p.used || p.point != point {
			continue
		}
		if p.match != nil && !p.match(a, b) {
			continue
		}
		if p.seen < p.nth {
			p.seen++
			continue
		}
		p.used = true
		p.A, p.B = a, b
		hit = p
		break
	}
	c.mu.Unlock()
	if obs != nil {
		obs(point, a, b)
	}
	if hit != nil {
		close(hit.arrived)
		<-hit.release
		return
	}
	if c.yieldP > 0 {
		r := mix(c.seed + c.ctr.Add(1))
		if float64(r>>11)/float64(1<<53) < c.yieldP {
			k := (r >> 3) % 5
			if k < 4 || c.maxUs <= 0 {
				for i := uint64(0); i <= k%4; i++ {
					runtime.Gosched()
				}
			} else {
				TimerWait(time.Duration((r>>7)%uint64(c.maxUs)+1) * time.Microsecond)
			}
		}
	}
}

// Counts returns the per-point arrival counts.
func (c *Ctl) Counts() map[string]int {
	c.mu.Lock()
	defer c.mu.Unlock()
	out := make(map[string]int, len(c.counts))
	for k, v := range c.counts {
		out[k] = v
	}
	return out
}

// Count returns arrivals at one point.
func (c *Ctl) Count(point string) int {
	c.mu.Lock()
	defer c.mu.Unlock()
	return c.counts[point]
}

// Fingerprint is a hash of the arrival order at hook points (the interleaving fingerprint).
func (c *Ctl) Fingerprint() uint64 {
	c.mu.Lock()
	defer c.mu.Unlock()
	return c.fp
}

// SortedKeys is a helper for stable output.
func SortedKeys(m map[string]int) []string {
	ks := make([]string, 0, len(m))
	for k := range m {
		ks = append(ks, k)
	}
	sort.Strings(ks)
	return ks
}
