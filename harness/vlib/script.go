package vlib

import (
	"context"
	"sync"
	"sync/atomic"

	"github.com/ThreeDotsLabs/watermill/message"
)

// MsgSnap is a deep snapshot of a message's value.
type MsgSnap struct {
	UUID     string            `json:"uuid"`
	Payload  []byte            `json:"payload"`
	Metadata map[string]string `json:"metadata"`
	NilPay   bool              `json:"nil_payload,omitempty"`
}

// Snap takes a deep snapshot.
func Snap(m *message.Message) MsgSnap {
	s := MsgSnap{UUID: m.UUID, Payload: append([]byte{}, m.Payload...), Metadata: map[string]string{}, NilPay: m.Payload == nil}
	for k, v := range m.Metadata {
		s.Metadata[k] = v
	}
	return s
}

// SameValue compares a snapshot with a message (UUID, payload bytes, complete metadata set).
func (s MsgSnap) SameValue(m *message.Message) bool {
	if s.UUID != m.UUID || string(s.Payload) != string(m.Payload) || len(s.Metadata) != len(m.Metadata) {
		return false
	}
	for k, v := range s.Metadata {
		if w, ok := m.Metadata[k]; !ok || w != v {
			return false
		}
	}
	return true
}

// Settled returns "ack", "nack" or "" without blocking.
func Settled(m *message.Message) string {
	select {
	case <-m.Acked():
		return "ack"
	default:
	}
	select {
	case <-m.Nacked():
		return "nack"
	default:
	}
	return ""
}

// ---------------------------------------------------------------------------------------------
// Scripted subscriber

// Sub is a scripted message.Subscriber whose emissions are driven by the harness.
type Sub struct {
	Name string

	mu         sync.Mutex
	subs       []*Subscription
	closed     bool
	CloseCalls atomic.Int32
	SubCalls   atomic.Int32
	// OnClose, if set, runs inside Close() before the subscriptions are closed ("message already on its way").
	OnClose func(s *Sub)
	// SubscribeErr makes Subscribe fail.
	SubscribeErr error
	// OnSubscribe runs inside Subscribe, before it returns.
	OnSubscribe func(topic string)
	// IgnoreCtx makes subscriptions ignore their context: they end only on Close() (like a broker client
	// that does not watch the context).
	IgnoreCtx bool
}

// String makes the Router's subscriber name deterministic.
func (s *Sub) String() string { return "vsub:" + s.Name }

type item struct {
	m         *message.Message
	delivered chan struct{}
	dropped   chan struct{}
}

// Subscription is one Subscribe call on a Sub.
type Subscription struct {
	Topic    string
	Ctx      context.Context
	SubSeq   uint64 // logical stamp when Subscribe returned
	out      chan *message.Message
	in       chan *item
	done     chan struct{}
	doneOnce sync.Once
	exited   chan struct{}

	ignoreCtx bool
}

func (s *Sub) Subscribe(ctx context.Context, topic string) (<-chan *message.Message, error) {
	s.SubCalls.Add(1)
	if s.OnSubscribe != nil {
		s.OnSubscribe(topic)
	}
	s.mu.Lock()
	defer s.mu.Unlock()
	if s.SubscribeErr != nil {
		return nil, s.SubscribeErr
	}
	sp := &Subscription{Topic: topic, Ctx: ctx, ignoreCtx: s.IgnoreCtx, out: make(chan *message.Message), in: make(chan *item), done: make(chan struct{}), exited: make(chan struct{})}
	if s.closed {
		sp.stop()
	}
	s.subs = append(s.subs, sp)
	go sp.pump()
	sp.SubSeq = Now()
	return sp.out, nil
}

func (sp *Subscription) stop() { sp.doneOnce.Do(func() { close(sp.done) }) }

func (sp *Subscription) pump() {
	defer close(sp.exited)
	defer close(sp.out)
	ctxDone := sp.Ctx.Done()
	if sp.ignoreCtx {
		ctxDone = nil
	}
	for {
		select {
		case <-sp.done:
			return
		case <-ctxDone:
			sp.stop()
			return
		case it := <-sp.in:
			select {
			case sp.out <- it.m:
				close(it.delivered)
			case <-sp.done:
				close(it.dropped)
				return
			case <-ctxDone:
				close(it.dropped)
				sp.stop()
				return
			}
		}
	}
}

// Send hands m to the consumer of this subscription. It blocks until the consumer received it
// (true) or the subscription ended (false).
func (sp *Subscription) Send(m *message.Message) bool {
	it := &item{m: m, delivered: make(chan struct{}), dropped: make(chan struct{})}
	select {
	case sp.in <- it:
	case <-sp.done:
		return false
	}
	select {
	case <-it.delivered:
		return true
	case <-it.dropped:
		return false
	}
}

// Ended is closed when the subscription's output channel has been closed.
func (sp *Subscription) Ended() <-chan struct{} { return sp.exited }

// Deliver emits copies of orig (context = subscription context) until one is acked, redelivering
// after each Nack like a broker, at most maxRedeliver extra times. It returns every copy handed to
// the consumer and whether the last one was acked.
func (sp *Subscription) Deliver(orig *message.Message, maxRedeliver int) (copies []*message.Message, acked bool) {
	for n := 0; ; n++ {
		c := orig.Copy()
		c.SetContext(sp.Ctx)
		if !sp.Send(c) {
			return copies, false
		}
		copies = append(copies, c)
		select {
		case <-c.Acked():
			return copies, true
		case <-c.Nacked():
			if n >= maxRedeliver {
				return copies, false
			}
		case <-sp.done:
			return copies, false
		}
	}
}

// Subs returns the subscriptions created so far.
func (s *Sub) Subs() []*Subscription {
	s.mu.Lock()
	defer s.mu.Unlock()
	return append([]*Subscription(nil), s.subs...)
}

// SubFor returns the first subscription for a topic (nil if none).
func (s *Sub) SubFor(topic string) *Subscription {
	for _, sp := range s.Subs() {
		if sp.Topic == topic {
			return sp
		}
	}
	return nil
}

func (s *Sub) Close() error {
	s.CloseCalls.Add(1)
	if s.OnClose != nil {
		s.OnClose(s)
	}
	s.mu.Lock()
	s.closed = true
	subs := append([]*Subscription(nil), s.subs...)
	s.mu.Unlock()
	for _, sp := range subs {
		sp.stop()
	}
	for _, sp := range subs {
		<-sp.exited
	}
	return nil
}

// ---------------------------------------------------------------------------------------------
// Scripted publisher

// PubCall records one Publish call.
type PubCall struct {
	No      int
	Start   uint64
	End     uint64
	Topic   string
	Msgs    []*message.Message
	Snaps   []MsgSnap
	Err     error
	Panic   any
	Sampled map[string]string // filled by OnPublish
}

// Pub is a scripted message.Publisher.
type Pub struct {
	Name string

	mu         sync.Mutex
	calls      []*PubCall
	CloseCalls atomic.Int32
	// Script decides the outcome of call number no (0-based): return an error, nil, or panic.
	Script func(no int, topic string, msgs []*message.Message) error
	// OnPublish runs inside the call (before Script), for sampling state at that instant.
	OnPublish func(c *PubCall)
}

func (p *Pub) String() string { return "vpub:" + p.Name }

func (p *Pub) Publish(topic string, msgs ...*message.Message) (err error) {
	c := &PubCall{Start: Now(), Topic: topic, Msgs: append([]*message.Message(nil), msgs...), Sampled: map[string]string{}}
	for _, m := range msgs {
		c.Snaps = append(c.Snaps, Snap(m))
	}
	p.mu.Lock()
	c.No = len(p.calls)
	p.calls = append(p.calls, c)
	p.mu.Unlock()
	if p.OnPublish != nil {
		p.OnPublish(c)
	}
	defer func() {
		if r := recover(); r != nil {
			p.mu.Lock()
			c.Panic = r
			c.End = Now()
			p.mu.Unlock()
			panic(r)
		}
	}()
	if p.Script != nil {
		err = p.Script(c.No, topic, msgs)
	}
	p.mu.Lock()
	c.Err = err
	c.End = Now()
	p.mu.Unlock()
	return err
}

func (p *Pub) Close() error { p.CloseCalls.Add(1); return nil }

// Calls returns the calls recorded so far.
func (p *Pub) Calls() []*PubCall {
	p.mu.Lock()
	defer p.mu.Unlock()
	return append([]*PubCall(nil), p.calls...)
}
