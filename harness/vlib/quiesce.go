package vlib

import (
	"runtime"
	"strconv"
	"strings"
	"time"
)

// Goroutine is one entry of an all-goroutine snapshot.
type Goroutine struct {
	ID        int
	State     string
	Frames    []string // function names, innermost first
	CreatedBy string
	Raw       string
}

// Has reports whether any frame contains sub; a pattern that ends in "$" must match the end of the frame's
// function name (so "pkg.F$" matches pkg.F but not its closures pkg.F.func1).
func (g Goroutine) Has(sub string) bool {
	if strings.HasSuffix(sub, "$") {
		sub = strings.TrimSuffix(sub, "$")
		for _, f := range g.Frames {
			if strings.HasSuffix(f, sub) {
				return true
			}
		}
		return false
	}
	for _, f := range g.Frames {
		if strings.Contains(f, sub) {
			return true
		}
	}
	return false
}

// Snapshot takes an atomic (stop-the-world) snapshot of all goroutines; the caller is element 0.
func Snapshot() []Goroutine {
	buf := make([]byte, 1<<16)
	for {
		n := runtime.Stack(buf, true)
		if n < len(buf) {
			buf = buf[:n]
			break
		}
		buf = make([]byte, 2*len(buf))
	}
	return parseStacks(string(buf))
}

// ParseDump parses a goroutine dump (as returned in the witness of WaitUntil) back into goroutines.
func ParseDump(s string) []Goroutine { return parseStacks(s) }

// Trunc shortens a witness for storage.
func Trunc(s string, n int) string {
	if len(s) > n {
		return s[:n] + "\n...truncated"
	}
	return s
}

func parseStacks(s string) []Goroutine {
	var out []Goroutine
	for _, blk := range strings.Split(s, "\n\n") {
		blk = strings.TrimSpace(blk)
		if !strings.HasPrefix(blk, "goroutine ") {
			continue
		}
		lines := strings.Split(blk, "\n")
		hdr := lines[0]
		g := Goroutine{Raw: blk}
		rest := strings.TrimPrefix(hdr, "goroutine ")
		if i := strings.IndexByte(rest, ' '); i > 0 {
			g.ID, _ = strconv.Atoi(rest[:i])
			rest = rest[i+1:]
		}
		if i, j := strings.IndexByte(rest, '['), strings.LastIndexByte(rest, ']'); i >= 0 && j > i {
			st := rest[i+1 : j]
			if k := strings.IndexByte(st, ','); k >= 0 {
				st = st[:k]
			}
			g.State = st
		}
		for _, l := range lines[1:] {
			if strings.HasPrefix(l, "\t") {
				continue
			}
			if strings.HasPrefix(l, "created by ") {
				c := strings.TrimPrefix(l, "created by ")
				if k := strings.Index(c, " in goroutine"); k >= 0 {
					c = c[:k]
				}
				g.CreatedBy = c
				continue
			}
			// strip the argument list
			if k := strings.LastIndexByte(l, '('); k > 0 {
				l = l[:k]
			}
			g.Frames = append(g.Frames, l)
		}
		out = append(out, g)
	}
	return out
}

var blockedStates = map[string]bool{
	"chan receive": true, "chan send": true, "select": true,
	"sync.Mutex.Lock": true, "sync.RWMutex.RLock": true, "sync.RWMutex.Lock": true,
	"semacquire": true, "sync.WaitGroup.Wait": true, "sync.Cond.Wait": true,
	"chan receive (nil chan)": true, "chan send (nil chan)": true, "select (no cases)": true,
}

// DefaultTimerFrames: a goroutine with one of these frames may be woken by a timer, so the
// process is not quiescent while it exists (time.After inside a select leaves no time.* frame).
var DefaultTimerFrames = []string{
	"time.Sleep",
	"pubsub/sync.WaitGroupTimeout$", // the caller that selects on time.After; its helper goroutine (.func1) only sits in wg.Wait
	"Retry.Middleware",
	"middleware.(*Throttle)",
	"middleware.Throttle",
	"requeuer.(*Requeuer).handler",
	"vlib.TimerWait",
}

// DefaultIgnoreFrames: goroutines that wake on timers but cannot unblock anything else.
var DefaultIgnoreFrames = []string{
	"middleware.(*mapExpiringKeyRepository).cleanOutLoop",
	"os/signal.",
	"runtime.ensureSigM",
}

// Outcome of a conditional wait.
type Outcome int

const (
	Done         Outcome = iota // the condition became true
	Stuck                       // the process is quiescent and the condition is false: it never will be true
	Inconclusive                // watchdog fired
)

func (o Outcome) String() string { return [...]string{"done", "stuck", "inconclusive"}[o] }

// WaitOpts tunes WaitUntil.
type WaitOpts struct {
	Watchdog     time.Duration // default 60 s
	TimerFrames  []string      // in addition to DefaultTimerFrames
	IgnoreFrames []string      // in addition to DefaultIgnoreFrames: treat as blocked forever
	NoTimerCheck []string      // remove these entries from the timer list (e.g. WaitGroupTimeout with a 1 h timeout)
	NotBefore    time.Time     // never report Stuck before this instant (harness-known context deadlines)
	MinSpan      time.Duration // the quiescent streak must last at least this long (default 10 ms)
}

// Quiescent reports whether no goroutine other than snap[0] can make progress without an external event.
func Quiescent(snap []Goroutine, o WaitOpts) bool {
	for i, g := range snap {
		if i == 0 {
			continue
		}
		ignored := false
		for _, f := range DefaultIgnoreFrames {
			if g.Has(f) {
				ignored = true
			}
		}
		for _, f := range o.IgnoreFrames {
			if g.Has(f) {
				ignored = true
			}
		}
		if ignored {
			continue
		}
		if !blockedStates[g.State] {
			return false
		}
		for _, f := range DefaultTimerFrames {
			skip := false
			for _, n := range o.NoTimerCheck {
				if n == f || strings.HasPrefix(f, n) {
					skip = true
				}
			}
			if !skip && g.Has(f) {
				return false
			}
		}
		for _, f := range o.TimerFrames {
			if g.Has(f) {
				return false
			}
		}
	}
	return true
}

// WaitUntil polls cond until it is true (Done), the process is provably quiescent with cond
// false (Stuck, with the goroutine dump as witness), or the watchdog fires (Inconclusive).
// cond must not block.
func WaitUntil(cond func() bool, o WaitOpts) (Outcome, string) {
	if o.Watchdog == 0 {
		o.Watchdog = 60 * time.Second
	}
	if o.MinSpan == 0 {
		o.MinSpan = 10 * time.Millisecond
	}
	start := time.Now()
	for i := 0; i < 200; i++ {
		if cond() {
			return Done, ""
		}
		runtime.Gosched()
	}
	streak := 0
	var streakStart time.Time
	sleep := 50 * time.Microsecond
	for {
		if cond() {
			return Done, ""
		}
		snap := Snapshot()
		if Quiescent(snap, o) {
			if streak == 0 {
				streakStart = time.Now()
			}
			streak++
			if streak >= 3 && time.Since(streakStart) >= o.MinSpan && (o.NotBefore.IsZero() || time.Now().After(o.NotBefore)) {
				if cond() {
					return Done, ""
				}
				return Stuck, dump(snap)
			}
		} else {
			streak = 0
		}
		if time.Since(start) > o.Watchdog {
			if cond() {
				return Done, ""
			}
			return Inconclusive, dump(snap)
		}
		time.Sleep(sleep)
		if streak > 0 {
			sleep = o.MinSpan / 3
			if sleep < 200*time.Microsecond {
				sleep = 200 * time.Microsecond
			}
		} else if sleep < 2*time.Millisecond {
			sleep *= 2
		}
	}
}

// WaitClosed waits for a channel to be closed (or to deliver a value).
func WaitClosed(ch <-chan struct{}, o WaitOpts) (Outcome, string) {
	return WaitUntil(func() bool {
		select {
		case <-ch:
			return true
		default:
			return false
		}
	}, o)
}

// Settle waits until the process is quiescent (everything that could happen has happened).
// It returns Stuck when quiescent (the normal outcome) or Inconclusive on watchdog.
func Settle(o WaitOpts) (Outcome, string) {
	return WaitUntil(func() bool { return false }, o)
}

func dump(snap []Goroutine) string {
	var b strings.Builder
	for i, g := range snap {
		if i == 0 {
			continue
		}
		b.WriteString(g.Raw)
		b.WriteString("\n\n")
		if b.Len() > 400000 {
			b.WriteString("...truncated\n")
			break
		}
	}
	return b.String()
}

// CountGoroutines counts goroutines (other than the caller) satisfying match.
func CountGoroutines(match func(Goroutine) bool) (int, string) {
	snap := Snapshot()
	n := 0
	var b strings.Builder
	for i, g := range snap {
		if i == 0 {
			continue
		}
		if match(g) {
			n++
			if b.Len() < 6000 {
				b.WriteString(g.Raw + "\n\n")
			}
		}
	}
	return n, b.String()
}

// TimerWait sleeps; its frame marks the goroutine as timer-driven for the quiescence detector.
//
//go:noinline
func TimerWait(d time.Duration) { time.Sleep(d) }
