// Command vcheck is the driver: it builds the child from /repo's current tree, shards the cases of a
// property over child processes, attributes crashes, parses race logs, matches known findings,
// writes the evidence file and prints VIOLATION / KNOWN-FINDING lines.
package main

import (
	"bufio"
	"bytes"
	"encoding/json"
	"flag"
	"fmt"
	"os"
	"os/exec"
	"path/filepath"
	"regexp"
	"runtime"
	"sort"
	"strconv"
	"strings"
	"sync"
	"sync/atomic"
	"syscall"
	"time"
)

var verifDir = func() string {
	if d := os.Getenv("VERIF_DIR"); d != "" {
		return d
	}
	return "/verif"
}()

type result struct {
	Verdict    string         `json:"verdict"`
	Clause     string         `json:"clause,omitempty"`
	Reason     string         `json:"reason,omitempty"`
	Class      string         `json:"class,omitempty"`
	Sig        string         `json:"sig,omitempty"`
	NonTrivial bool           `json:"nontrivial"`
	Events     int            `json:"events"`
	Hooks      map[string]int `json:"hooks,omitempty"`
	Counters   map[string]int `json:"counters,omitempty"`
	Witness    any            `json:"witness,omitempty"`
	Sample     any            `json:"sample,omitempty"`
	Spec       any            `json:"spec,omitempty"`
}

type line struct {
	T string  `json:"t"`
	I int     `json:"i"`
	R *result `json:"r,omitempty"`
	N int     `json:"n,omitempty"`
	S float64 `json:"s,omitempty"`
}

type meta struct {
	ID              string   `json:"id"`
	Cases           int      `json:"cases"`
	Rule            string   `json:"rule"`
	Assumptions     []string `json:"assumptions"`
	Level           string   `json:"level"`
	RaceIsViolation bool     `json:"race_is_violation"`
}

type finding struct {
	Property  string `json:"property"`
	ID        string `json:"id"`
	Status    string `json:"status"` // open | fixed
	Clause    string `json:"clause"`
	Class     string `json:"class,omitempty"`      // regex on Result.Class (optional)
	ReasonRe  string `json:"reason_re,omitempty"`  // regex on Result.Reason (optional)
	WitnessRe string `json:"witness_re,omitempty"` // regex on the JSON of the witness (optional)
	// WitnessAll: every regex must match the witness text (optional)
	WitnessAll []string `json:"witness_all,omitempty"`
	WhatFails  string   `json:"what_fails"`
	Commit     string   `json:"commit,omitempty"`
}

var stop, timedOut atomic.Bool

type caseOut struct {
	idx int
	res result
	sec float64
}

func env() []string {
	e := os.Environ()
	e = append(e, "GOFLAGS=-mod=mod", "GOPROXY=off", "GOSUMDB=off", "GOTOOLCHAIN=local", "GOTRACEBACK=all")
	return e
}

func main() {
	prop := flag.String("prop", "", "property id")
	tier := flag.String("tier", "quick", "quick|thorough")
	replay := flag.String("replay", "", "replay file")
	shards := flag.Int("shards", 0, "parallel children (default min(16, NumCPU))")
	keep := flag.Bool("keep", false, "keep work dir")
	flag.Parse()
	if *prop == "" {
		fmt.Fprintln(os.Stderr, "usage: vcheck -prop Cxx -tier quick|thorough | -replay file")
		os.Exit(2)
	}
	seed := uint64(1)
	if s := os.Getenv("VERIF_SEED"); s != "" {
		if v, err := strconv.ParseUint(s, 10, 64); err == nil {
			seed = v
		} else if v, err := strconv.ParseInt(s, 10, 64); err == nil {
			seed = uint64(v)
		}
	}
	if t := os.Getenv("VERIF_TIER"); t != "" && *tier == "" {
		*tier = t
	}
	t0 := time.Now()
	work := filepath.Join(verifDir, ".work", fmt.Sprintf("%s-%d", *prop, os.Getpid()))
	os.MkdirAll(work, 0o755)
	if !*keep {
		defer os.RemoveAll(work)
	}
	exit := func(code int) {
		if !*keep {
			os.RemoveAll(work)
		}
		os.Exit(code)
	}

	child := filepath.Join(work, "vchild")
	buildArgs := []string{"build", "-race", "-tags", "verif"}
	if repo := os.Getenv("VERIF_REPO"); repo != "" && repo != "/repo" {
		// sensitivity testing against a scratch copy/worktree of the repository: same harness, other replace target
		gm, _ := os.ReadFile(filepath.Join(verifDir, "harness", "go.mod"))
		gs, _ := os.ReadFile(filepath.Join(verifDir, "harness", "go.sum"))
		gm = bytes.Replace(gm, []byte("=> /repo"), []byte("=> "+repo), 1)
		os.WriteFile(filepath.Join(work, "go.mod"), gm, 0o644)
		os.WriteFile(filepath.Join(work, "go.sum"), gs, 0o644)
		buildArgs = append(buildArgs, "-modfile="+filepath.Join(work, "go.mod"))
		fmt.Printf("NOTE: building against VERIF_REPO=%s instead of /repo\n", repo)
	}
	// the child of one property links only that property's workload package (cmd/vchild/cNN)
	pkg := "./cmd/vchild"
	if _, err := os.Stat(filepath.Join(verifDir, "harness", "cmd", "vchild", strings.ToLower(*prop), "main.go")); err == nil {
		pkg = "./cmd/vchild/" + strings.ToLower(*prop)
	}
	buildArgs = append(buildArgs, "-o", child, pkg)
	b := exec.Command("go", buildArgs...)
	b.Dir = filepath.Join(verifDir, "harness")
	b.Env = env()
	if out, err := b.CombinedOutput(); err != nil {
		fmt.Printf("HARNESS-ERROR: building the child from /repo failed: %v\n%s\n", err, out)
		exit(2)
	}

	if *replay != "" {
		doReplay(child, *prop, *replay, work)
		exit(0)
	}

	mb, err := runOut(child, "-prop", *prop, "-tier", *tier, "-meta")
	if err != nil {
		fmt.Printf("HARNESS-ERROR: meta query failed: %v\n%s\n", err, mb)
		exit(2)
	}
	var m meta
	if err := json.Unmarshal(mb, &m); err != nil {
		fmt.Printf("HARNESS-ERROR: bad meta: %v\n", err)
		exit(2)
	}
	ns := *shards
	if ns == 0 {
		ns = runtime.NumCPU()
		if ns > 16 {
			ns = 16
		}
	}
	if ns > m.Cases {
		ns = m.Cases
	}
	if ns < 1 {
		ns = 1
	}

	var mu sync.Mutex
	results := map[int]caseOut{}
	deadline := time.Now().Add(20 * time.Minute)
	if *tier == "thorough" {
		deadline = time.Now().Add(90 * time.Minute)
	}
	abort := func() bool {
		if stop.Load() {
			return true
		}
		if time.Now().After(deadline) {
			timedOut.Store(true)
			stop.Store(true)
			return true
		}
		return false
	}
	findingsEarly := loadFindings()
	var crashes []string
	var wg sync.WaitGroup
	watchDone := make(chan struct{})
	go func() {
		// early stop: count violations in the out files while the children run
		tk := time.NewTicker(3 * time.Second)
		defer tk.Stop()
		for {
			select {
			case <-watchDone:
				return
			case <-tk.C:
				files, _ := filepath.Glob(filepath.Join(work, "out.*.jsonl"))
				n := 0
				for _, f := range files {
					cs, _, _ := readOut(f)
					for _, c := range cs {
						if c.res.Verdict == "violated" && matchFinding(findingsEarly, *prop, c.res) == nil {
							n++
						}
					}
				}
				if time.Now().After(deadline) {
					timedOut.Store(true)
				}
				if n >= 12 || timedOut.Load() {
					stop.Store(true)
					return
				}
			}
		}
	}()
	for s := 0; s < ns; s++ {
		wg.Add(1)
		go func(s int) {
			defer wg.Done()
			start := 0
			stalls := 0
			for attempt := 0; attempt < 200 && !abort(); attempt++ {
				outF := filepath.Join(work, fmt.Sprintf("out.%d.%d.jsonl", s, attempt))
				errF := filepath.Join(work, fmt.Sprintf("err.%d.%d.txt", s, attempt))
				done, lastBegun, cs := runShard(child, *prop, *tier, seed, s, ns, start, outF, errF, filepath.Join(work, fmt.Sprintf("race.%d", s)))
				mu.Lock()
				for _, c := range cs {
					results[c.idx] = c
				}
				mu.Unlock()
				if done || stop.Load() {
					return
				}
				// the child died or hung inside case lastBegun
				dumpB, _ := os.ReadFile(errF)
				res := classifyCrash(string(dumpB))
				if res.Verdict == "inconclusive" {
					stalls++
					if stalls >= 2 {
						// two stalls in one shard: stop burning time, the run is a harness failure (or a livelock everywhere)
						mu.Lock()
						if lastBegun >= 0 {
							results[lastBegun] = caseOut{idx: lastBegun, res: res}
						}
						crashes = append(crashes, fmt.Sprintf("shard %d stalled twice (last in case %d); giving up on the shard", s, lastBegun))
						mu.Unlock()
						return
					}
				}
				mu.Lock()
				if lastBegun >= 0 {
					results[lastBegun] = caseOut{idx: lastBegun, res: res}
				} else {
					crashes = append(crashes, "child died before the first case: "+tail(string(dumpB), 2000))
				}
				mu.Unlock()
				if lastBegun < 0 {
					return
				}
				start = lastBegun + 1
			}
		}(s)
	}
	wg.Wait()
	close(watchDone)
	stoppedEarly := stop.Load()

	// re-run inconclusive cases once, alone
	var idxs []int
	for i, c := range results {
		if c.res.Verdict == "inconclusive" {
			idxs = append(idxs, i)
		}
	}
	sort.Ints(idxs)
	rerun := 0
	for _, i := range idxs {
		if rerun >= 40 || stoppedEarly {
			break
		}
		rerun++
		outF := filepath.Join(work, fmt.Sprintf("rerun.%d.jsonl", i))
		errF := filepath.Join(work, fmt.Sprintf("rerun.%d.err", i))
		cs := runOnly(child, *prop, *tier, seed, i, 1, outF, errF, filepath.Join(work, "race.rerun"))
		if len(cs) == 1 {
			c := cs[0]
			c.res.Count("rerun_after_inconclusive", 1)
			results[i] = c
		}
	}

	races := parseRaces(work)
	findings := loadFindings()

	ev := aggregate(*prop, *tier, seed, m, results, races, time.Since(t0).Seconds())
	code := 0
	knownHit := map[string]bool{}
	var violLines []string
	nViol := 0
	keys := make([]int, 0, len(results))
	for i := range results {
		keys = append(keys, i)
	}
	sort.Ints(keys)
	harnessErr := 0
	inconcl := 0
	for _, i := range keys {
		c := results[i]
		switch c.res.Verdict {
		case "violated":
			if f := matchFinding(findings, *prop, c.res); f != nil {
				knownHit[f.ID] = true
				continue
			}
			nViol++
			if len(violLines) < 10 {
				path := writeReplay(*prop, *tier, seed, i, c.res)
				violLines = append(violLines, fmt.Sprintf("VIOLATION property=%s replay=%s", *prop, path))
				fmt.Printf("  case %d clause=%s class=%s: %s\n", i, c.res.Clause, c.res.Class, oneLine(c.res.Reason, 400))
			}
		case "harness_error":
			harnessErr++
			fmt.Printf("HARNESS-ERROR case %d: %s\n", i, oneLine(c.res.Reason, 1500))
		case "inconclusive":
			inconcl++
			if inconcl <= 10 {
				fmt.Printf("  inconclusive case %d class=%s: %s\n", i, c.res.Class, oneLine(c.res.Reason, 300))
			}
		}
	}
	if nViol > 0 {
		byClause := map[string]int{}
		for _, i := range keys {
			if c := results[i]; c.res.Verdict == "violated" && matchFinding(findings, *prop, c.res) == nil {
				byClause[c.res.Clause]++
			}
		}
		fmt.Printf("  unmatched violations by clause: %v\n", byClause)
	}
	raceViol := 0
	for _, r := range races {
		if !r.Product {
			harnessErr++
			fmt.Printf("HARNESS-ERROR: data race in harness code only: %s\n", r.Key)
			continue
		}
		if m.RaceIsViolation {
			res := result{Verdict: "violated", Clause: "data-race", Reason: r.Key, Witness: r.Text}
			if f := matchFinding(findings, *prop, res); f != nil {
				knownHit[f.ID] = true
				continue
			}
			raceViol++
			path := writeReplay(*prop, *tier, seed, -1, res)
			violLines = append(violLines, fmt.Sprintf("VIOLATION property=%s replay=%s", *prop, path))
			fmt.Printf("  data race (x%d): %s\n", r.Count, r.Key)
		} else {
			fmt.Printf("NOTE: data race observed (recorded in evidence, not claimed by %s): %s\n", *prop, r.Key)
		}
	}
	for _, c := range crashes {
		harnessErr++
		fmt.Printf("HARNESS-ERROR: %s\n", c)
	}
	for _, f := range findings {
		if f.Property == *prop && f.Status == "open" && knownHit[f.ID] {
			fmt.Printf("KNOWN-FINDING: property=%s %s\n", *prop, f.WhatFails)
		}
	}
	ev["violations"] = nViol + raceViol
	cov := ev["coverage"].(map[string]any)
	var hits []string
	for id := range knownHit {
		hits = append(hits, id)
	}
	sort.Strings(hits)
	cov["known_findings_hit"] = hits
	writeEvidence(*prop, ev)

	dn := cov["distinct_nontrivial"].(int)
	fmt.Printf("%s %s seed=%d: cases=%d held=%v violated=%d known=%d inconclusive=%d unreached=%v distinct_nontrivial=%d events=%v races=%d wall=%.1fs\n",
		*prop, *tier, seed, len(results), cov["held"], nViol+raceViol, len(knownHit), inconcl, cov["unreached"], dn, cov["events_observed"], len(races), time.Since(t0).Seconds())
	for _, l := range violLines {
		fmt.Println(l)
	}
	if nViol+raceViol > 0 {
		code = 1
	} else if harnessErr > 0 {
		code = 2
	} else if timedOut.Load() {
		fmt.Println("HARNESS-ERROR: run exceeded its overall time limit before all cases were judged")
		code = 2
	} else if len(results) == 0 || dn < 2 {
		fmt.Println("HARNESS-ERROR: the monitors observed nothing non-trivial")
		code = 2
	} else if inconcl*5 > len(results) {
		fmt.Printf("HARNESS-ERROR: %d of %d cases inconclusive\n", inconcl, len(results))
		code = 2
	}
	exit(code)
}

func (r *result) Count(name string, n int) {
	if r.Counters == nil {
		r.Counters = map[string]int{}
	}
	r.Counters[name] += n
}

func oneLine(s string, n int) string {
	s = strings.ReplaceAll(s, "\n", " | ")
	if len(s) > n {
		s = s[:n] + "..."
	}
	return s
}

func tail(s string, n int) string {
	if len(s) > n {
		return s[len(s)-n:]
	}
	return s
}

func runOut(bin string, args ...string) ([]byte, error) {
	c := exec.Command(bin, args...)
	c.Env = env()
	return c.CombinedOutput()
}

func readOut(path string) (cs []caseOut, lastBegun int, done bool) {
	lastBegun = -1
	f, err := os.Open(path)
	if err != nil {
		return
	}
	defer f.Close()
	sc := bufio.NewScanner(f)
	sc.Buffer(make([]byte, 1<<20), 1<<28)
	open := -1
	for sc.Scan() {
		var l line
		if json.Unmarshal(sc.Bytes(), &l) != nil {
			continue
		}
		switch l.T {
		case "B":
			open = l.I
		case "E":
			if l.R != nil {
				cs = append(cs, caseOut{idx: l.I, res: *l.R, sec: l.S})
			}
			open = -1
		case "D":
			done = true
		}
	}
	return cs, open, done
}

// runShard runs one child; it returns done=true when the child finished all its cases.
func runShard(bin, prop, tier string, seed uint64, s, ns, start int, outF, errF, raceLog string) (bool, int, []caseOut) {
	args := []string{"-prop", prop, "-tier", tier, "-seed", fmt.Sprint(seed), "-shard", fmt.Sprint(s), "-nshards", fmt.Sprint(ns), "-start", fmt.Sprint(start), "-out", outF}
	runChild(bin, args, errF, raceLog, outF)
	cs, open, done := readOut(outF)
	return done && open < 0, open, cs
}

func runOnly(bin, prop, tier string, seed uint64, idx, repeat int, outF, errF, raceLog string) []caseOut {
	args := []string{"-prop", prop, "-tier", tier, "-seed", fmt.Sprint(seed), "-only", fmt.Sprint(idx), "-repeat", fmt.Sprint(repeat), "-out", outF}
	runChild(bin, args, errF, raceLog, outF)
	cs, _, _ := readOut(outF)
	return cs
}

// runChild runs a child with a stall watchdog: if the output file does not grow for stallLimit, the
// child gets SIGQUIT (goroutine dump to stderr file) and is then killed.
func runChild(bin string, args []string, errF, raceLog, outF string) {
	ef, _ := os.Create(errF)
	defer ef.Close()
	c := exec.Command(bin, args...)
	c.Env = append(env(), "GORACE=halt_on_error=0 log_path="+raceLog+" history_size=3")
	c.Stdout = ef
	c.Stderr = ef
	c.SysProcAttr = &syscall.SysProcAttr{Pdeathsig: syscall.SIGKILL}
	if err := c.Start(); err != nil {
		fmt.Fprintf(ef, "start failed: %v\n", err)
		return
	}
	doneCh := make(chan struct{})
	go func() { c.Wait(); close(doneCh) }()
	stallLimit := 120 * time.Second
	lastSize := int64(-1)
	lastChange := time.Now()
	tk := time.NewTicker(2 * time.Second)
	defer tk.Stop()
	for {
		select {
		case <-doneCh:
			return
		case <-tk.C:
			if stop.Load() {
				c.Process.Kill()
				<-doneCh
				return
			}
			var sz int64
			if st, err := os.Stat(outF); err == nil {
				sz = st.Size()
			}
			if sz != lastSize {
				lastSize = sz
				lastChange = time.Now()
			} else if time.Since(lastChange) > stallLimit {
				fmt.Fprintf(ef, "\nVCHECK-STALL: no progress for %v, sending SIGQUIT\n", stallLimit)
				c.Process.Signal(syscall.SIGQUIT)
				select {
				case <-doneCh:
				case <-time.After(20 * time.Second):
					c.Process.Kill()
					<-doneCh
				}
				return
			}
		}
	}
}

var productFrame = regexp.MustCompile(`github\.com/ThreeDotsLabs/watermill[/.(]`)

// classifyCrash turns a child's death into a result for the case that was running.
func classifyCrash(stderr string) result {
	if strings.Contains(stderr, "VCHECK-STALL") {
		return result{Verdict: "inconclusive", Reason: "case made no progress within the stall watchdog (livelock or harness hang)", Witness: tail(stderr, 20000)}
	}
	i := strings.Index(stderr, "panic: ")
	j := strings.Index(stderr, "fatal error: ")
	if i < 0 || (j >= 0 && j < i) {
		i = j
	}
	if i < 0 {
		return result{Verdict: "harness_error", Reason: "child died without a panic message: " + tail(stderr, 3000)}
	}
	msg := stderr[i:]
	first := msg
	if k := strings.IndexByte(first, '\n'); k >= 0 {
		first = first[:k]
	}
	// the faulting goroutine's stack is the first goroutine block after the message
	blk := msg
	if k := strings.Index(blk, "\ngoroutine "); k >= 0 {
		blk = blk[k+1:]
		if e := strings.Index(blk, "\n\n"); e >= 0 {
			blk = blk[:e]
		}
	}
	var frames []string
	product := false
	for _, l := range strings.Split(blk, "\n") {
		if strings.HasPrefix(l, "\t") || strings.HasPrefix(l, "goroutine ") || strings.HasPrefix(l, "created by") {
			if strings.HasPrefix(l, "created by") && productFrame.MatchString(l) {
				product = true
			}
			continue
		}
		if k := strings.LastIndexByte(l, '('); k > 0 {
			l = l[:k]
		}
		if strings.HasPrefix(l, "runtime.") || strings.HasPrefix(l, "panic(") || l == "" {
			continue
		}
		if productFrame.MatchString(l) && !strings.Contains(l, "verifhook") {
			product = true
		}
		if len(frames) < 6 {
			frames = append(frames, l)
		}
	}
	r := result{Verdict: "violated", Clause: "crash", Reason: first + " @ " + strings.Join(frames, " < "), Witness: tail(msg, 12000), NonTrivial: true}
	if len(msg) > 12000 {
		r.Witness = msg[:12000]
	}
	if !product {
		r.Verdict = "harness_error"
	}
	return r
}

// repoDir is the source tree the child was built from.
func repoDir() string {
	if r := os.Getenv("VERIF_REPO"); r != "" {
		return strings.TrimRight(r, "/")
	}
	return "/repo"
}

type race struct {
	Key     string
	Count   int
	Product bool
	Text    string
}

func parseRaces(work string) []race {
	files, _ := filepath.Glob(filepath.Join(work, "race.*"))
	byKey := map[string]*race{}
	for _, f := range files {
		b, err := os.ReadFile(f)
		if err != nil {
			continue
		}
		for _, blk := range bytes.Split(b, []byte("WARNING: DATA RACE"))[1:] {
			text := string(blk)
			if k := strings.Index(text, "=================="); k >= 0 {
				text = text[:k]
			}
			// access stacks: the sections before the first "Goroutine N (" description
			acc := text
			if k := strings.Index(acc, "\nGoroutine "); k >= 0 {
				acc = acc[:k]
			}
			var tops []string
			product := false
			for _, sec := range strings.Split(acc, "\n\n") {
				top := ""
				for _, l := range strings.Split(sec, "\n") {
					if strings.HasPrefix(l, "      ") {
						// source position of the frame above: a product closure inlined into a harness function keeps
						// the harness function's name but the product's file
						if pth := strings.TrimSpace(l); strings.HasPrefix(pth, repoDir()+"/") && !strings.Contains(pth, "verifhook") {
							product = true
						}
						continue
					}
					if !strings.HasPrefix(l, "  ") {
						continue
					}
					fn := strings.TrimSpace(l)
					if k := strings.LastIndexByte(fn, '('); k > 0 {
						fn = fn[:k]
					}
					if strings.HasPrefix(fn, "runtime.") || strings.HasPrefix(fn, "sync.") || strings.HasPrefix(fn, "sync/atomic") || strings.HasPrefix(fn, "internal/") {
						continue
					}
					if top == "" {
						top = fn
					}
					if productFrame.MatchString(fn) && !strings.Contains(fn, "verifhook") {
						product = true
					}
				}
				if top != "" {
					tops = append(tops, top)
				}
			}
			sort.Strings(tops)
			key := strings.Join(tops, " <-> ")
			r := byKey[key]
			if r == nil {
				r = &race{Key: key, Text: "WARNING: DATA RACE" + tail(text, 0)}
				if len(text) > 6000 {
					r.Text = "WARNING: DATA RACE" + text[:6000]
				} else {
					r.Text = "WARNING: DATA RACE" + text
				}
				byKey[key] = r
			}
			r.Count++
			r.Product = r.Product || product
		}
	}
	var out []race
	for _, r := range byKey {
		out = append(out, *r)
	}
	sort.Slice(out, func(i, j int) bool { return out[i].Key < out[j].Key })
	return out
}

func loadFindings() []finding {
	b, err := os.ReadFile(filepath.Join(verifDir, "known_findings.json"))
	if err != nil {
		return nil
	}
	var doc struct {
		Findings []finding `json:"findings"`
	}
	if json.Unmarshal(b, &doc) != nil {
		return nil
	}
	return doc.Findings
}

func matchFinding(fs []finding, prop string, r result) *finding {
	for i := range fs {
		f := &fs[i]
		if f.Property != prop || f.Status != "open" || f.Clause != r.Clause {
			continue
		}
		if f.Class != "" {
			if ok, _ := regexp.MatchString(f.Class, r.Class); !ok {
				continue
			}
		}
		if f.ReasonRe != "" {
			if ok, _ := regexp.MatchString(f.ReasonRe, r.Reason); !ok {
				continue
			}
		}
		if f.WitnessRe != "" {
			wb, _ := json.Marshal(r.Witness)
			if ok, _ := regexp.Match(f.WitnessRe, wb); !ok {
				continue
			}
		}
		if len(f.WitnessAll) > 0 {
			wt, isStr := r.Witness.(string)
			if !isStr {
				wb, _ := json.Marshal(r.Witness)
				wt = string(wb)
			}
			all := true
			for _, re := range f.WitnessAll {
				if ok, _ := regexp.MatchString(re, wt); !ok {
					all = false
				}
			}
			if !all {
				continue
			}
		}
		return f
	}
	return nil
}

func writeReplay(prop, tier string, seed uint64, idx int, r result) string {
	dir := filepath.Join(evidenceDir(), "replays")
	os.MkdirAll(dir, 0o755)
	name := fmt.Sprintf("%s-%s-seed%d-case%d.json", prop, tier, seed, idx)
	if idx < 0 {
		name = fmt.Sprintf("%s-%s-seed%d-race-%x.json", prop, tier, seed, hash(r.Reason))
	}
	path := filepath.Join(dir, name)
	b, _ := json.MarshalIndent(map[string]any{"property": prop, "tier": tier, "seed": seed, "case": idx, "result": r}, "", " ")
	os.WriteFile(path, b, 0o644)
	return path
}

func hash(s string) uint32 {
	var h uint32 = 2166136261
	for i := 0; i < len(s); i++ {
		h = (h ^ uint32(s[i])) * 16777619
	}
	return h
}

func aggregate(prop, tier string, seed uint64, m meta, results map[int]caseOut, races []race, wall float64) map[string]any {
	distinct := map[string]bool{}
	verd := map[string]int{}
	hooks := map[string]int{}
	counters := map[string]int{}
	classes := map[string]int{}
	events := 0
	var samples []any
	keys := make([]int, 0, len(results))
	for i := range results {
		keys = append(keys, i)
	}
	sort.Ints(keys)
	slowest := 0.0
	sampledClass := map[string]bool{}
	for _, i := range keys {
		c := results[i]
		verd[c.res.Verdict]++
		events += c.res.Events
		if c.res.Class != "" {
			classes[c.res.Class]++
		}
		for k, v := range c.res.Hooks {
			hooks[k] += v
		}
		for k, v := range c.res.Counters {
			counters[k] += v
		}
		if c.res.NonTrivial && (c.res.Verdict == "held" || c.res.Verdict == "violated") {
			sig := c.res.Sig
			if sig == "" {
				sig = fmt.Sprintf("case-%d", i)
			}
			distinct[sig] = true
		}
		if c.res.Sample != nil && len(samples) < 6 && !sampledClass[c.res.Class] {
			sampledClass[c.res.Class] = true
			samples = append(samples, map[string]any{"case": i, "verdict": c.res.Verdict, "class": c.res.Class, "sample": c.res.Sample})
		}
		if c.sec > slowest {
			slowest = c.sec
		}
	}
	if len(samples) == 0 {
		for _, i := range keys {
			c := results[i]
			samples = append(samples, map[string]any{"case": i, "verdict": c.res.Verdict, "sig": c.res.Sig})
			if len(samples) >= 3 {
				break
			}
		}
	}
	var raceKeys []string
	for _, r := range races {
		raceKeys = append(raceKeys, fmt.Sprintf("%s (x%d, product=%v)", r.Key, r.Count, r.Product))
	}
	level := m.Level
	if level == "" {
		level = "exploration"
	}
	cov := map[string]any{
		"evaluations":         len(results),
		"distinct_nontrivial": len(distinct),
		"rule":                m.Rule,
		"samples":             samples,
		"events_observed":     events,
		"hook_points_reached": hooks,
		"counters":            counters,
		"workload_classes":    classes,
		"held":                verd["held"],
		"violated_cases":      verd["violated"],
		"inconclusive":        verd["inconclusive"],
		"unreached":           verd["unreached"],
		"harness_errors":      verd["harness_error"],
		"races_observed":      raceKeys,
		"planned_cases":       m.Cases,
		"slowest_case_s":      slowest,
		"exhaustive":          false,
	}
	return map[string]any{
		"property_id": prop,
		"tier":        tier,
		"seed":        int64(seed),
		"level":       level,
		"coverage":    cov,
		"assumptions": m.Assumptions,
		"wall_s":      wall,
		"violations":  0,
	}
}

func evidenceDir() string {
	// sensitivity runs (tools/mut.py, seeded patches on a worktree) must not overwrite the evidence of the real tree
	if d := os.Getenv("VERIF_EVIDENCE_DIR"); d != "" {
		return d
	}
	return filepath.Join(verifDir, "evidence")
}

func writeEvidence(prop string, ev map[string]any) {
	dir := evidenceDir()
	os.MkdirAll(dir, 0o755)
	b, _ := json.MarshalIndent(ev, "", " ")
	os.WriteFile(filepath.Join(dir, prop+".json"), b, 0o644)
}

func doReplay(child, prop, file, work string) {
	b, err := os.ReadFile(file)
	if err != nil {
		fmt.Println("cannot read replay file:", err)
		os.Exit(2)
	}
	var doc struct {
		Tier string `json:"tier"`
		Seed uint64 `json:"seed"`
		Case int    `json:"case"`
	}
	json.Unmarshal(b, &doc)
	if doc.Case < 0 {
		fmt.Println("race replays re-run the whole tier: use ./check", prop, doc.Tier)
		return
	}
	cs := runOnly(child, prop, doc.Tier, doc.Seed, doc.Case, 50, filepath.Join(work, "replay.jsonl"), filepath.Join(work, "replay.err"), filepath.Join(work, "race.replay"))
	n := 0
	for _, c := range cs {
		if c.res.Verdict == "violated" {
			n++
			if n == 1 {
				wb, _ := json.MarshalIndent(c.res, "", " ")
				fmt.Println(string(wb))
			}
		}
	}
	fmt.Printf("replay of %s case %d (seed %d, %s): %d of %d runs violated\n", prop, doc.Case, doc.Seed, doc.Tier, n, len(cs))
	if eb, _ := os.ReadFile(filepath.Join(work, "replay.err")); len(eb) > 0 {
		fmt.Println(tail(string(eb), 6000))
	}
	if n > 0 {
		fmt.Printf("VIOLATION property=%s replay=%s\n", prop, file)
		os.RemoveAll(work)
		os.Exit(1)
	}
}
