// Command c17 is vchild linked with the workload of property C17 only, so that a check builds (and fails to
// build) independently of the other property packages.
package main

import (
	"verifharness/vlib"

	_ "verifharness/props/c17"
)

func main() { vlib.ChildMain() }
