// Command vchild runs the cases of one property inside one process (built with -race -tags verif).
package main

import (
	"verifharness/vlib"

	_ "verifharness/props/all"
)

func main() { vlib.ChildMain() }
