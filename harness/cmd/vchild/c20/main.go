// Command c20 is vchild linked with the workload of property C20 only, so that a check builds (and fails to
// build) independently of the other property packages.
package main

import (
	"verifharness/vlib"

	_ "verifharness/props/c20"
)

func main() { vlib.ChildMain() }
