// Command c13 is vchild linked with the workload of property C13 only, so that a check builds (and fails to
// build) independently of the other property packages.
package main

import (
	"verifharness/vlib"

	_ "verifharness/props/c13"
)

func main() { vlib.ChildMain() }
