module verifharness

go 1.21

require (
	github.com/ThreeDotsLabs/watermill v0.0.0
	github.com/anishathalye/porcupine v1.3.0
	github.com/gogo/protobuf v1.3.2
	github.com/golang/protobuf v1.5.4
	github.com/hashicorp/go-multierror v1.1.1
	github.com/pkg/errors v0.9.1
	github.com/prometheus/client_golang v1.20.2
	github.com/prometheus/client_model v0.6.1
	google.golang.org/protobuf v1.34.2
)

require (
	github.com/google/uuid v1.6.0 // indirect
	github.com/lithammer/shortuuid/v3 v3.0.7 // indirect
	github.com/oklog/ulid v1.3.1 // indirect
)

replace github.com/ThreeDotsLabs/watermill => /repo
