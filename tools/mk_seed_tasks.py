#!/usr/bin/env python3
"""tools/mk_seed_tasks.py <round> <root>   e.g.  4 /tmp/seed4
Creates one git worktree of /repo per property under <root>/cNN and writes <root>/cNN.TASK.md: the brief for an
independent sub-agent that gets ONLY the property text and its worktree (nothing from /verif) and is asked for two
realistic property-breaking changes. The list of ideas already tried comes from seeded/descriptions.json."""
import json, os, subprocess, sys
rnd, root = sys.argv[1], sys.argv[2]
props = [json.loads(l) for l in open('/verif/properties.jsonl')]
desc = json.load(open('/verif/seeded/descriptions.json'))
os.makedirs(root + '/out', exist_ok=True)
ordinal = {'2': 'second', '3': 'third', '4': 'fourth', '5': 'fifth', '6': 'sixth', '7': 'seventh', '8': 'eighth'}.get(rnd, rnd + 'th')
for p in props:
    c = p['id'].lower()
    wt = f'{root}/{c}'
    if not os.path.isdir(wt):
        subprocess.check_call(['git', '-C', '/repo', 'worktree', 'add', '--detach', '-f', wt, 'HEAD'], stdout=subprocess.DEVNULL, stderr=subprocess.DEVNULL)
    tried = '\n'.join('- ' + v[0] for k, v in sorted(desc.items()) if k.startswith(p['id'] + '-'))
    open(f'{root}/{c}.TASK.md', 'w').write(f'''# Task: seed a realistic defect into a Go library ({ordinal} round)

You work ONLY inside the git worktree `{wt}` (a checkout of the Go library ThreeDotsLabs/watermill: message router with ack/nack semantics, middlewares, CQRS buses, in-process GoChannel Pub/Sub) and write your results to `{root}/out/{c}/`. Do not read or write anything under /verif, /repo, /tmp/seed, /tmp/seed2, /tmp/seed3, /tmp/seed4, /tmp/seed5, /tmp/seed6, /tmp/seed7 or other {root}/c* directories.
Every shell call needs: `export GOFLAGS=-mod=mod GOPROXY=off GOSUMDB=off GOTOOLCHAIN=local` (no network; default `go` is 1.23). Lines like `verifhook.At("...", a, b)` in the sources are inert instrumentation (empty function): leave them in place and do not rely on them.
NEVER use `git stash` (it is shared between worktrees and other people work in sibling worktrees): save a change with `git diff > file.diff`, remove it with `git apply -R file.diff` or `git checkout -- <file>`, re-apply it with `git apply file.diff`.

## The property your change must break

**{p['title']}**

{p['statement']}

It is meant to hold: {p['quantifier']['text']}.

## Ideas that were ALREADY tried by others - do not repeat them or trivial variants of them

{tried}

Find DIFFERENT mechanisms. Most wanted: defects that need a particular goroutine interleaving, a fault/crash/cancel at a particular point, a multi-step sequence of API calls (including calls made after an earlier call returned an error), an unusual-but-legal configuration or input (empty/duplicate names or ids, zero values, extreme sizes, objects reused or shared between calls, long-lived instances, values that look like the library's own internal keys), or two cooperating sites that each look fine alone. Also welcome: a defect in a code path that the ideas above did not touch (look at every file and function the property depends on, including error paths, constructors/defaults, legacy/deprecated constructors and less-used options).

## What to produce

Make TWO different, independent changes to the library's non-test source files (each as its own patch against the clean worktree), each of which:
1. breaks the property above (a real behavioural violation of the statement, not a cosmetic change),
2. still compiles (`go build ./...`, also with `-tags verif`) and still passes the library's existing tests for the packages it touches AND their dependants - run at least `go test -count=1 ./message/... ./pubsub/... ./components/...` (some gochannel/requestreply/router/middleware tests are flaky by themselves, especially while the machine is busy; re-run a failing one on the clean tree to tell flaky from broken),
3. is REALISTIC and SUBTLE: the kind of slip a maintainer could make in a refactor or "optimisation". It must need something specific to manifest - NOT something ordinary use or the simplest example would expose at once.
4. comes with a demonstration: a Go test that FAILS with the change applied and PASSES on the clean tree (it may use sleeps/retries/many iterations to hit an interleaving; say how often it fires). Name its test functions `TestSeed{rnd}{p['id']}Change<k>_...`.

For each change k in {{1,2}} write:
- `{root}/out/{c}/change{{k}}/patch.diff` (output of `git diff` in the worktree with only that change applied; apply-able with `git apply` on the clean tree),
- `{root}/out/{c}/change{{k}}/demo_test.go` plus, in notes.md, the package directory it must be copied into and the exact `go test -run` regex,
- `{root}/out/{c}/change{{k}}/notes.md`: first line `# {c} / change {{k}} - <one-line summary>`, then what the change is, why it violates the property, what it needs in order to manifest, what you ran (commands + outcomes: build, existing tests, demo with and without the change).
Reset the worktree (`git checkout -- . && git clean -fd`) between the two changes and at the end.

Your final reply: for each change, 5-10 lines: file/function changed, one-sentence description, trigger condition, demo placement (package dir) and -run regex, test results.
''')
print('ok')
