#!/bin/bash
# tools/confirm_seed.sh <patch.diff> <demo_test.go> <pkgdir> <run-regex> [suite]
# Confirms a seeded change in a scratch copy of /repo: demo passes on the clean tree, fails with the patch,
# the patch compiles (also -tags verif) and (with "suite") the repository's tests for message/pubsub/components still pass.
set -u
patch=$(readlink -f "$1"); demo=$(readlink -f "$2"); pkg=$3; re=$4; suite=${5:-}
s=$(mktemp -d /tmp/confirm-XXXXXX); trap 'rm -rf "$s"' EXIT
rsync -a --exclude .git --exclude _examples --exclude docs /repo/ "$s/"
export GOFLAGS=-mod=mod GOPROXY=off GOSUMDB=off GOTOOLCHAIN=local
cp "$demo" "$s/$pkg/zz_seed_demo_test.go"
race=""; grep -qs "must be run with .-race\|go test -race" "$(dirname "$patch")/notes.md" && race="-race"
cd "$s"
clean=$(go test $race -count=1 -run "$re" ./$pkg/ 2>&1 | tail -1)
(git apply --whitespace=nowarn "$patch" 2>/dev/null || patch -p1 -s < "$patch") || { echo "CONFIRM: patch does not apply"; exit 3; }
b1=$(go build ./... 2>&1 | tail -1); b2=$(go build -tags verif ./... 2>&1 | tail -1)
mut=$(go test $race -count=1 -run "$re" ./$pkg/ 2>&1 | tail -1)
echo "CONFIRM demo clean: $clean"
echo "CONFIRM demo with change: $mut"
echo "CONFIRM build: [${b1}] [${b2}]"
if [ -n "$suite" ]; then
  rm -f "$s/$pkg/zz_seed_demo_test.go"
  go test -count=1 ./message/... ./pubsub/... ./components/... 2>&1 | grep -v "^ok\|no test files" | head -5
  echo "CONFIRM suite done"
fi
