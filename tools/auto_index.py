#!/usr/bin/env python3
"""tools/auto_index.py <out_root> <first_suffix>  e.g. /tmp/seed3/out 5
Adds seeded/index.tsv lines for <out_root>/cNN/change{1,2} (ids CNN-<first_suffix>, CNN-<first_suffix+1>), taking the demo's package directory from the
`package` clause + the notes and the -run regex from notes.md. Prints what it could not infer."""
import sys,re,os,glob
root,first=sys.argv[1],int(sys.argv[2])
have=open('/verif/seeded/index.tsv').read()
add=[]
for d in sorted(glob.glob(root+'/c*/change[12]')):
    n=re.search(r'/c(\d+)/change(\d)',d); prop='C'+n.group(1); k=int(n.group(2)); id=f'{prop}-{first+k-1}'
    if f'\n{id}\t' in have: continue
    notes=open(d+'/notes.md').read() if os.path.exists(d+'/notes.md') else ''
    demo=(glob.glob(d+'/demo*_test.go')+glob.glob(d+'/*_test.go')+[None])[0]
    if not demo or not os.path.exists(d+'/patch.diff'): print('INCOMPLETE',d); continue
    src=open(demo).read()
    rx=re.findall(r"-run[ =]+'([^']+)'",notes+src) or re.findall(r'-run[ =]+"([^"]+)"',notes+src) or re.findall(r'-run[ =]+(\S+)',notes+src)
    pk=re.findall(r'go test[^\n]*?\s\./([\w/]+?)/?(?:\s|$|`)',notes+src)
    pk=[p for p in pk if p not in ('message/...','pubsub/...','components/...') and '...' not in p]
    if not rx or not pk:
        funcs=re.findall(r'func (Test\w+)\(',src); rx=rx or ['|'.join(funcs)]
    if not pk:
        pkgmap={'message':'message','gochannel':'pubsub/gochannel','middleware':'message/router/middleware','plugin':'message/router/plugin','cqrs':'components/cqrs',
                'forwarder':'components/forwarder','requestreply':'components/requestreply','requeuer':'components/requeuer','metrics':'components/metrics',
                'delay':'components/delay','fanin':'components/fanin','sync':'pubsub/sync','subscriber':'message/subscriber'}
        pn=re.search(r'^package (\w+?)(?:_test)?$',src,re.M)
        if pn and pn.group(1) in pkgmap: pk=[pkgmap[pn.group(1)]]
    if not pk: print('NO-PKG',d, rx); continue
    add.append(f"{id}\t{prop}\t{d}\t{pk[0]}\t{rx[0].strip('`')}")
open('/verif/seeded/index.tsv','a').write(''.join(a+'\n' for a in add))
print('\n'.join(add))
