#!/bin/bash
# tools/recheck_seeded.sh [tier]  — runs every stored seeded change (seeded/<id>/patch.diff) against its property's check
# and prints a table; updates meta.json's caught_by_quick_check/clauses_reported. /repo is not touched.
cd /verif; tier=${1:-quick}
for d in seeded/C*-*; do
  id=$(basename $d); prop=${id%-*}
  st=$(tools/seedtest.sh $d/patch.diff $tier $prop 2>&1)
  caught=$(echo "$st" | grep -c "SEEDTEST $prop $tier: exit=1")
  clauses=$(echo "$st" | grep "by clause" | sed 's/.*map\[//; s/\]//')
  echo -e "$id\t$prop\t$([ $caught = 1 ] && echo caught || echo MISSED)\t$clauses"
  python3 - "$d/meta.json" "$caught" "$clauses" "$tier" <<'PY'
import json,sys
p,c,cl,t=sys.argv[1:]
m=json.load(open(p)); m['caught_by_'+t+'_check']=(c=="1"); m['clauses_reported']=cl; json.dump(m,open(p,'w'),indent=1)
PY
done
