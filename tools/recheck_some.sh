#!/bin/bash
cd /verif
for p in "$@"; do
for d in seeded/$p-*; do
  id=$(basename $d); prop=${id%-*}
  st=$(tools/seedtest.sh $d/patch.diff quick $prop 2>&1)
  caught=$(echo "$st" | grep -c "SEEDTEST $prop quick: exit=1")
  clauses=$(echo "$st" | grep "by clause" | sed 's/.*map\[//; s/\]//')
  echo -e "$id\t$prop\t$([ $caught = 1 ] && echo caught || echo MISSED)\t$clauses"
  python3 - "$d/meta.json" "$caught" "$clauses" quick <<'PY'
import json,sys
p,c,cl,t=sys.argv[1:]
m=json.load(open(p)); m['caught_by_'+t+'_check']=(c=="1"); m['clauses_reported']=cl; json.dump(m,open(p,'w'),indent=1)
PY
done
done
