#!/bin/bash
# tools/case_counts.sh: prints "CNN quick / thorough" case counts of every property (from the child's -meta output)
export GOFLAGS=-mod=mod GOPROXY=off GOSUMDB=off GOTOOLCHAIN=local
cd /verif/harness || exit 2
tmp=$(mktemp -d /tmp/cc-XXXXXX); trap 'rm -rf "$tmp"' EXIT
for i in $(seq -w 1 20); do
  go build -tags verif -o "$tmp/c" ./cmd/vchild/c$i 2>/dev/null || { echo "C$i build failed"; continue; }
  q=$("$tmp/c" -prop C$i -tier quick -meta | python3 -c 'import json,sys;print(json.load(sys.stdin)["cases"])')
  t=$("$tmp/c" -prop C$i -tier thorough -meta | python3 -c 'import json,sys;print(json.load(sys.stdin)["cases"])')
  echo "C$i $q / $t"
done
