#!/bin/bash
# tools/import_seed.sh <id>  — confirm one seeded change listed in seeded/index.tsv (demo passes clean / fails with the change,
# builds, repository tests of message/pubsub/components pass with it), run the owning check against it, and store it under seeded/<id>/.
set -u
cd /verif
line=$(grep -P "^$1\t" seeded/index.tsv) || { echo "no such id"; exit 2; }
IFS=$'\t' read -r id prop src pkg re <<< "$line"
demo=$(ls $src/demo*_test.go $src/demo/*.go 2>/dev/null | head -1)
out=$(tools/confirm_seed.sh $src/patch.diff "$demo" "$pkg" "$re" suite 2>&1)
echo "$out" | grep CONFIRM
clean=$(echo "$out" | grep "CONFIRM demo clean" | grep -c "^CONFIRM demo clean: ok")
mut=$(echo "$out" | grep "CONFIRM demo with change" | grep -c "FAIL")
suitefail=$(echo "$out" | grep -c "^FAIL\|^--- FAIL")
st=$(tools/seedtest.sh $src/patch.diff quick $prop 2>&1)
echo "$st" | grep -E "SEEDTEST|by clause" | cut -c1-220
caught=$(echo "$st" | grep -c "SEEDTEST $prop quick: exit=1")
clauses=$(echo "$st" | grep "by clause" | sed 's/.*map\[//; s/\]//')
mkdir -p seeded/$id
cp $src/patch.diff seeded/$id/patch.diff
cp "$demo" seeded/$id/$(basename "$demo")
cp $src/notes.md seeded/$id/notes.md 2>/dev/null
python3 - "$id" "$prop" "$pkg" "$re" "$clean" "$mut" "$suitefail" "$caught" "$clauses" <<'PY'
import json,sys,re
id,prop,pkg,rx,clean,mut,suitefail,caught,clauses=sys.argv[1:]
notes=open(f'/verif/seeded/{id}/notes.md').read() if __import__('os').path.exists(f'/verif/seeded/{id}/notes.md') else ''
def needs(n):
    import re
    paras=[p.strip() for p in re.split(r'\n\s*\n', n) if re.search(r'(?i)trigger|manifest|needs', p)]
    t=' '.join(' '.join(paras[:2]).split())
    return (t[:700] if t else 'see notes.md')+' [from the authoring sub-agent\'s notes.md]'

m={ "id":id, "breaks_property":prop,
    "needs_to_manifest":needs(notes),
    "demo":{"place_in":pkg, "run":f"go test -count=1 -run '{rx}' ./{pkg}/", "passes_on_clean_tree":clean=="1", "fails_with_change":mut=="1"},
    "repository_tests_with_change":"go test -count=1 ./message/... ./pubsub/... ./components/... : "+("pass" if suitefail=="0" else "FAILURES (see notes; flaky tests re-checked on the clean tree)"),
    "what_i_ran":["tools/confirm_seed.sh (scratch copy of /repo: demo on clean tree, apply patch, go build ./... with and without -tags verif, demo again, repository tests)", f"tools/seedtest.sh patch.diff quick {prop} (check built against the patched scratch copy via VERIF_REPO)"],
    "caught_by_quick_check":caught=="1", "clauses_reported":clauses }
json.dump(m,open(f'/verif/seeded/{id}/meta.json','w'),indent=1)
print("stored", id, "caught" if caught=="1" else "MISSED", "demo_ok" if clean=="1" and mut=="1" else "DEMO-PROBLEM")
PY
