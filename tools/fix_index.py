#!/usr/bin/env python3
"""tools/fix_index.py <prefix>  - re-validate the seeded/index.tsv lines whose source dir starts with <prefix> against the demo files
(package directory from the package clause, -run regex matching every Test function); seeding agents sometimes rewrite a demo after it was indexed."""
import re,glob,os,sys
pkgmap={'message':'message','gochannel':'pubsub/gochannel','middleware':'message/router/middleware','plugin':'message/router/plugin','cqrs':'components/cqrs','forwarder':'components/forwarder','requestreply':'components/requestreply','requeuer':'components/requeuer','metrics':'components/metrics','delay':'components/delay','fanin':'components/fanin','sync':'pubsub/sync'}
lines=open('/verif/seeded/index.tsv').read().splitlines()
out=[]
for l in lines:
    f=l.split('\t')
    if not f[2].startswith(sys.argv[1]): out.append(l); continue
    d=f[2]; demo=(glob.glob(d+'/demo*_test.go')+glob.glob(d+'/*_test.go')+[None])[0]
    if not demo: print('nodemo',l); out.append(l); continue
    src=open(demo).read()
    pn=re.search(r'^package (\w+?)(?:_test)?$',src,re.M).group(1)
    funcs=re.findall(r'func (Test\w+)\(',src)
    pk=pkgmap.get(pn,f[3])
    pre=os.path.commonprefix(funcs)
    m=re.match(r'(TestSeed\d+C\d+Change\d+_?)',pre)
    rx=m.group(1) if m else '|'.join(funcs)
    if pk!=f[3] or not all(re.search(f[4],fn) for fn in funcs):
        print('FIX',f[0],f[3],'->',pk,f[4],'->',rx)
        f[3]=pk; f[4]=rx
    out.append('\t'.join(f))
open('/verif/seeded/index.tsv','w').write('\n'.join(out)+'\n')
