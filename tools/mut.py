#!/usr/bin/env python3
"""tools/mut.py <prop[,prop..]> <repo-relative-file> [tier]   (stdin: OLD\n===\nNEW)
Sensitivity testing: copies /repo's working tree to a scratch directory, applies a one-off textual mutation there,
runs the named checks against the copy (VERIF_REPO), and removes the copy. /repo itself is never touched."""
import sys, subprocess, os, shutil, tempfile
props, path = sys.argv[1].split(","), sys.argv[2]
tier = sys.argv[3] if len(sys.argv) > 3 else "quick"
old, new = sys.stdin.read().split("\n===\n")
new = new.rstrip("\n")
old = old.strip("\n")
scratch = tempfile.mkdtemp(prefix="mutrepo-", dir="/tmp")
try:
    subprocess.run(["rsync", "-a", "--exclude", ".git", "--exclude", "_examples", "--exclude", "docs", "/repo/", scratch + "/"], check=True)
    full = os.path.join(scratch, path)
    src = open(full).read()
    if src.count(old) != 1:
        print("MUT: anchor occurs", src.count(old), "times"); sys.exit(3)
    open(full, "w").write(src.replace(old, new))
    env = dict(os.environ, GOFLAGS="-mod=mod", GOPROXY="off", GOSUMDB="off", GOTOOLCHAIN="local", VERIF_REPO=scratch, VERIF_EVIDENCE_DIR=scratch + "/.evidence")
    b = subprocess.run("go build ./...", shell=True, capture_output=True, text=True, cwd=scratch, env=env)
    if b.returncode != 0:
        print("MUT: does not compile\n", b.stderr[-1500:]); sys.exit(3)
    for p in props:
        r = subprocess.run(["/verif/check", p, tier], capture_output=True, text=True, errors="replace", env=env)
        lines = r.stdout.strip().splitlines()
        viol = [l for l in lines if l.startswith("VIOLATION")]
        detail = [l for l in lines if l.startswith("  case") or l.startswith("  data race")]
        print(f"MUT {p}: exit={r.returncode} violations={len(viol)}")
        for l in detail[:3]: print("   ", l[:300])
        print("   ", [l for l in lines if l.startswith(p + " ")][-1:])
        # restore the evidence of the unchanged tree later: mutant runs overwrite evidence/<id>.json
finally:
    shutil.rmtree(scratch, ignore_errors=True)
