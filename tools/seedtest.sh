#!/bin/bash
# tools/seedtest.sh <patch.diff> <tier> <prop> [prop...]
# Applies a seeded change to a scratch copy of /repo's working tree and runs the named checks against it (VERIF_REPO).
# /repo itself and /verif/evidence are not touched. Prints one summary line per check.
set -u
patch=$(readlink -f "$1"); tier=$2; shift 2
scratch=$(mktemp -d /tmp/seedrepo-XXXXXX)
trap 'rm -rf "$scratch"' EXIT
rsync -a --exclude .git --exclude _examples --exclude docs /repo/ "$scratch/"
if ! (cd "$scratch" && git apply --whitespace=nowarn "$patch" 2>/dev/null || patch -p1 -s < "$patch"); then
  echo "SEEDTEST: patch does not apply"; exit 3
fi
export GOFLAGS=-mod=mod GOPROXY=off GOSUMDB=off GOTOOLCHAIN=local
if ! (cd "$scratch" && go build ./... && go build -tags verif ./...); then echo "SEEDTEST: does not compile"; exit 3; fi
for p in "$@"; do
  out=$(VERIF_REPO="$scratch" VERIF_EVIDENCE_DIR="$scratch/.evidence" /verif/check "$p" "$tier" 2>&1)
  code=$?
  echo "SEEDTEST $p $tier: exit=$code $(echo "$out" | grep -E "^$p " | tail -1 | cut -c1-160)"
  echo "$out" | grep -E "by clause" | head -1 | cut -c1-300
  echo "$out" | grep -E "^  case|^  data race" | head -3 | cut -c1-260
done
