#!/usr/bin/env python3
"""Rewrites DESIGN.md §7.1 from seeded/descriptions.json and seeded/*/meta.json (run tools/recheck_seeded.sh first)."""
import json,glob,os
desc=json.load(open('/verif/seeded/descriptions.json'))
rows=[]
for d in sorted(glob.glob('/verif/seeded/C*-*')):
    m=json.load(open(d+'/meta.json')); rows.append((m['id'], m.get('caught_by_quick_check'), m.get('clauses_reported','')))
n=len(rows); caught=sum(1 for r in rows if r[1]); late=sum(1 for i,_,_ in rows if 'initially missed' in desc[i][2] or 'at first' in desc[i][2])
out=['### 7.1 Seeded changes vs checks','',
f'{n} changes were written in nine rounds (the ninth a short one: one change each for ten properties) by fresh sub-agents that saw only the text of one property and a private worktree of `/repo` (nothing from `/verif`; from the',
'second round on they were additionally told which ideas had been tried, so that they would look elsewhere). Each was confirmed here in a scratch copy (`tools/confirm_seed.sh`: demo passes on',
'the clean tree, fails with the change; builds with and without `-tags verif`; `go test ./message/... ./pubsub/... ./components/...` passes with the change) and is stored as',
'`seeded/<id>/{patch.diff, demo, notes.md, meta.json}`. `tools/recheck_seeded.sh` re-runs all of them against the current checks (scratch copy + `VERIF_REPO`).',
f'{late} were missed by the checks as first built and led to the strengthening noted in the last column; {caught} of {n} are caught by the quick tier now, the remaining ones are explained in their notes. After a fix in `/repo` rewrote lines a stored patch touches, the patch was rebased by hand (`meta.json: rebased`, original kept as `patch.orig.diff`).','',
'| id | the change | needs to manifest | clauses that fire (quick) | note |','|---|---|---|---|---|']
for i,c,cl in rows:
    d=desc[i]
    out.append(f"| {i} | {d[0]} | {d[1]} | {cl if c else '(not caught)'} | {d[2]} |")
D=open('/verif/DESIGN.md').read()
a=D.index('### 7.1 Seeded changes vs checks')
b=D.index('---------------------------------------------------------------------------------------------------',a)
open('/verif/DESIGN.md','w').write(D[:a]+'\n'.join(out)+'\n\n'+D[b:])
print(n,caught,late)
