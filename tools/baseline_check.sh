#!/bin/bash
# Runs the repository's own suite with the verif tag OFF and compares with BASELINE.json's stable_pass list.
export GOFLAGS=-mod=mod GOPROXY=off GOSUMDB=off GOTOOLCHAIN=local
out=${1:-/tmp/baseline_run.json}
: > "$out"
for m in . dev/update-examples-deps dev/validate-examples; do
  (cd /repo/$m && go test -mod=mod -json -vet=off -count=1 -timeout 25m ./... ) >> "$out" 2>/dev/null
done
python3 - "$out" <<'PY'
import json,sys
passed=set(); failed=set()
for l in open(sys.argv[1]):
    try: d=json.loads(l)
    except Exception: continue
    if d.get('Test') and d.get('Action') in ('pass','fail'):
        k=f"{d['Package']}::{d['Test']}"
        (passed if d['Action']=='pass' else failed).add(k)
b=json.load(open('/root/.vp/BASELINE.json'))
stable=set(b['stable_pass'])
missing=sorted(stable-passed)
print("stable_pass:",len(stable),"passed now:",len(passed&stable),"missing/failed:",len(missing))
for m in missing[:40]: print("  ", m, "(FAILED)" if m in failed else "(not run)")
print("other failures:", sorted(failed-stable)[:20])
PY
